(* MemoP.v — the FAITHFUL models of Model/Memo.v (CTL memo dict keyed by printed form, LTL
   closure/atom sets compared by printed form) coincide with the clean models of
   Model/CTLmc.v / Model/LTLmc.v on formulas over identifier atoms with the documented
   arities, where the printers are injective (Proofs/PrintP.v); and they differ from them
   in general (known finding KF-print-a).  Axiom-free. *)
From Coq Require Import List Arith Bool Lia String.
From PMC Require Import Spec.Lemmas Model.Memo.
From PMC Require Proofs.RewriteP Proofs.CTLP Proofs.LTLP Proofs.PrintP.
Import ListNotations.
Local Open Scope list_scope.

Import PMC.Proofs.PrintP.

(* ====================================================================================== *)
(** * okstd (identifier atoms + documented arities) is compositional                      *)
(* ====================================================================================== *)
Lemma okstd_FNot g : okstd (FNot g) = okstd g. Proof. reflexivity. Qed.
Lemma okstd_FX g : okstd (FX g) = okstd g. Proof. reflexivity. Qed.
Lemma okstd_FF g : okstd (FF g) = okstd g. Proof. reflexivity. Qed.
Lemma okstd_FG g : okstd (FG g) = okstd g. Proof. reflexivity. Qed.
Lemma okstd_FA g : okstd (FA g) = okstd g. Proof. reflexivity. Qed.
Lemma okstd_FE g : okstd (FE g) = okstd g. Proof. reflexivity. Qed.
Lemma okstd_FBool b : okstd (FBool b) = true. Proof. reflexivity. Qed.
Lemma okstd_bin2 (g h : form) :
  ident_atoms g && ident_atoms h && (arity_ok g && arity_ok h) = okstd g && okstd h.
Proof. unfold okstd. destruct (ident_atoms g), (ident_atoms h), (arity_ok g), (arity_ok h); reflexivity. Qed.
Lemma okstd_FU g h : okstd (FU g h) = okstd g && okstd h. Proof. apply okstd_bin2. Qed.
Lemma okstd_FR g h : okstd (FR g h) = okstd g && okstd h. Proof. apply okstd_bin2. Qed.
Lemma okstd_FImp g h : okstd (FImp g h) = okstd g && okstd h. Proof. apply okstd_bin2. Qed.
Lemma okstd_nary (fs : list form) :
  forallb ident_atoms fs && ((2 <=? List.length fs) && forallb arity_ok fs)
  = (2 <=? List.length fs) && forallb okstd fs.
Proof.
  unfold okstd. rewrite forallb_andb.
  destruct (forallb ident_atoms fs), (2 <=? List.length fs), (forallb arity_ok fs); reflexivity.
Qed.
Lemma okstd_FOr fs : okstd (FOr fs) = (2 <=? List.length fs) && forallb okstd fs.
Proof. apply okstd_nary. Qed.
Lemma okstd_FAnd fs : okstd (FAnd fs) = (2 <=? List.length fs) && forallb okstd fs.
Proof. apply okstd_nary. Qed.
Lemma okstd_FOr2 a b : okstd (FOr [a; b]) = okstd a && okstd b.
Proof. rewrite okstd_FOr. simpl. rewrite andb_true_r. reflexivity. Qed.
Lemma okstd_LNot f : okstd (LNot f) = okstd f.
Proof. apply RewriteP.LNot_pres. reflexivity. Qed.
Lemma okstd_split f : okstd f = true -> ident_atoms f = true /\ arity_ok f = true.
Proof. unfold okstd. intros H. apply andb_true_iff in H. exact H. Qed.
Lemma okstd_join f : ident_atoms f = true -> arity_ok f = true -> okstd f = true.
Proof. unfold okstd. intros -> ->. reflexivity. Qed.

Global Hint Rewrite okstd_FNot okstd_FX okstd_FF okstd_FG okstd_FA okstd_FE okstd_FBool
  okstd_FU okstd_FR okstd_FImp okstd_FOr2 okstd_LNot : okstd.

(* ====================================================================================== *)
(** * restrict_ctl, syntactically (no semantics, hence no classical axiom)                *)
(* ====================================================================================== *)
Definition syn_ok (f r : form) : Prop :=
  restricted_ctl r = true /\ ctl_state r = true /\ height r <= 3 * height f /\
  (okstd f = true -> okstd r = true).

Ltac syn_height :=
  cbn [height fold_right];
  repeat match goal with
         | |- context [height (LNot ?s)] =>
             let n := fresh "n" in
             let H := fresh "H" in
             let E := fresh "E" in
             pose proof (RewriteP.LNot_height s) as H;
             remember (height (LNot s)) as n eqn:E; clear E
         end;
  lia.

Ltac split_andb :=
  repeat match goal with
         | H : _ && _ = true |- _ => apply andb_true_iff in H; destruct H
         end.

Ltac syn_start :=
  unfold syn_ok in *;
  repeat match goal with H : _ /\ _ |- _ => destruct H end;
  unfold EX, EU, EG;
  split; [| split; [| split]];
  [ cbn [restricted_ctl forallb]; rewrite ?RewriteP.LNot_restricted_ctl;
    repeat match goal with H : restricted_ctl _ = true |- _ => rewrite H end; reflexivity
  | cbn [ctl_state forallb]; rewrite ?RewriteP.LNot_ctl_state;
    repeat match goal with H : ctl_state _ = true |- _ => rewrite H end; reflexivity
  | syn_height
  | let Ho := fresh "Ho" in
    intros Ho; autorewrite with okstd in Ho; split_andb; autorewrite with okstd;
    repeat match goal with
           | H : okstd ?g = true -> okstd ?s = true, H' : okstd ?g = true |- _ =>
               rewrite (H H'); clear H
           end; reflexivity ].

Lemma syn_Bool b : syn_ok (FBool b) (FBool b).
Proof. syn_start. Qed.
Lemma syn_Atom a : syn_ok (FAtom a) (FAtom a).
Proof. unfold syn_ok. split; [reflexivity|]. split; [reflexivity|]. split; [cbn [height]; lia|]. intros H; exact H. Qed.
Lemma syn_Not g s : syn_ok g s -> syn_ok (FNot g) (LNot s).
Proof. intros Hs. syn_start. Qed.
Lemma syn_Imp g h s0 s1 : syn_ok g s0 -> syn_ok h s1 -> syn_ok (FImp g h) (FOr [LNot s0; s1]).
Proof. intros H0 H1. syn_start. Qed.
Lemma syn_AX g s0 : syn_ok g s0 -> syn_ok (FA (FX g)) (FNot (EX (LNot s0))).
Proof. intros H0. syn_start. Qed.
Lemma syn_AF g s0 : syn_ok g s0 -> syn_ok (FA (FF g)) (FNot (EG (LNot s0))).
Proof. intros H0. syn_start. Qed.
Lemma syn_AG g s0 : syn_ok g s0 -> syn_ok (FA (FG g)) (FNot (EU (FBool true) (LNot s0))).
Proof. intros H0. syn_start. Qed.
Lemma syn_AU g h s0 s1 : syn_ok g s0 -> syn_ok h s1 ->
  syn_ok (FA (FU g h)) (FNot (FOr [EU (LNot s1) (FNot (FOr [s0; s1])); EG (LNot s1)])).
Proof. intros H0 H1. syn_start. Qed.
Lemma syn_AR g h s0 s1 : syn_ok g s0 -> syn_ok h s1 ->
  syn_ok (FA (FR g h)) (FNot (EU (LNot s0) (LNot s1))).
Proof. intros H0 H1. syn_start. Qed.
Lemma syn_EX g s0 : syn_ok g s0 -> syn_ok (FE (FX g)) (EX s0).
Proof. intros H0. syn_start. Qed.
Lemma syn_EF g s0 : syn_ok g s0 -> syn_ok (FE (FF g)) (EU (FBool true) s0).
Proof. intros H0. syn_start. Qed.
Lemma syn_EG g s0 : syn_ok g s0 -> syn_ok (FE (FG g)) (EG s0).
Proof. intros H0. syn_start. Qed.
Lemma syn_EU g h s0 s1 : syn_ok g s0 -> syn_ok h s1 -> syn_ok (FE (FU g h)) (EU s0 s1).
Proof. intros H0 H1. syn_start. Qed.
Lemma syn_ER g h s0 s1 : syn_ok g s0 -> syn_ok h s1 ->
  syn_ok (FE (FR g h)) (FOr [EU s1 (FNot (FOr [LNot s0; LNot s1])); EG s1]).
Proof. intros H0 H1. syn_start. Qed.

Lemma Forall2_length' {A B} (R : A -> B -> Prop) l1 l2 : Forall2 R l1 l2 -> List.length l1 = List.length l2.
Proof. induction 1; simpl; congruence. Qed.

Lemma Forall2_forallb_okstd fs rs :
  Forall2 syn_ok fs rs -> forallb okstd fs = true -> forallb okstd rs = true.
Proof.
  induction 1 as [|f r fs rs Hfr _ IH]; simpl; intros H; [reflexivity|].
  apply andb_true_iff in H. destruct H as [H1 H2].
  destruct Hfr as (_ & _ & _ & Ho). rewrite (Ho H1), (IH H2). reflexivity.
Qed.

Lemma forallb_okstd_LNot rs : forallb okstd (map LNot rs) = forallb okstd rs.
Proof. induction rs as [|r rs IH]; simpl; [reflexivity|]. rewrite okstd_LNot, IH. reflexivity. Qed.

Lemma syn_Or fs rs : Forall2 syn_ok fs rs -> syn_ok (FOr fs) (FOr rs).
Proof.
  intros H. pose proof (RewriteP.Forall2_In_r _ _ _ H) as Hin.
  split; [| split; [| split]].
  - cbn [restricted_ctl]. apply forallb_forall. intros r Hr.
    destruct (Hin r Hr) as [f [_ Hok]]. apply Hok.
  - cbn [ctl_state]. apply forallb_forall. intros r Hr.
    destruct (Hin r Hr) as [f [_ Hok]]. apply Hok.
  - rewrite !RewriteP.height_FOr.
    assert (RewriteP.hmax rs <= 3 * RewriteP.hmax fs); [|lia].
    apply RewriteP.hmax_le. intros r Hr. destruct (Hin r Hr) as [f [Hf (_ & _ & Hh & _)]].
    pose proof (RewriteP.hmax_In f fs Hf). lia.
  - rewrite !okstd_FOr. intros Ho. apply andb_true_iff in Ho. destruct Ho as [H1 H2].
    rewrite <- (Forall2_length' _ _ _ H), H1. simpl. exact (Forall2_forallb_okstd _ _ H H2).
Qed.

Lemma syn_And fs rs : Forall2 syn_ok fs rs -> syn_ok (FAnd fs) (FNot (FOr (map LNot rs))).
Proof.
  intros H. pose proof (RewriteP.Forall2_In_r _ _ _ H) as Hin.
  split; [| split; [| split]].
  - cbn [restricted_ctl]. apply RewriteP.forallb_map_In. intros r Hr. rewrite RewriteP.LNot_restricted_ctl.
    destruct (Hin r Hr) as [f [_ Hok]]. apply Hok.
  - cbn [ctl_state]. apply RewriteP.forallb_map_In. intros r Hr. rewrite RewriteP.LNot_ctl_state.
    destruct (Hin r Hr) as [f [_ Hok]]. apply Hok.
  - rewrite RewriteP.height_FAnd. cbn [height]. fold (RewriteP.hmax (map LNot rs)).
    assert (RewriteP.hmax (map LNot rs) <= S (3 * RewriteP.hmax fs)); [|lia].
    apply RewriteP.hmax_le. intros x Hx. apply in_map_iff in Hx. destruct Hx as [r [<- Hr]].
    destruct (Hin r Hr) as [f [Hf (_ & _ & Hh & _)]].
    pose proof (RewriteP.hmax_In f fs Hf). pose proof (RewriteP.LNot_height r). lia.
  - rewrite okstd_FNot, okstd_FAnd, okstd_FOr. intros Ho. apply andb_true_iff in Ho.
    destruct Ho as [H1 H2]. rewrite map_length, <- (Forall2_length' _ _ _ H), H1. simpl.
    rewrite forallb_okstd_LNot. exact (Forall2_forallb_okstd _ _ H H2).
Qed.

Lemma all_ctl_syn fs :
  (forall g, In g fs -> exists r, restrict_ctl g = Some r /\ syn_ok g r) ->
  exists rs, RewriteP.all_ctl fs = Some rs /\ Forall2 syn_ok fs rs.
Proof.
  induction fs as [|a fs IH]; intros H.
  - exists []. split; [reflexivity | constructor].
  - destruct (H a (or_introl eq_refl)) as [r [Er Hr]].
    destruct IH as [rs [Ers Hrs]]; [intros g Hg; apply H; right; exact Hg|].
    exists (r :: rs). split.
    + cbn [RewriteP.all_ctl]. rewrite Er, Ers. reflexivity.
    + constructor; assumption.
Qed.

Lemma restrict_ctl_syn : forall f, ctl_state f = true ->
  exists r, restrict_ctl f = Some r /\ syn_ok f r.
Proof.
  apply (RewriteP.form_height_ind
           (fun f => ctl_state f = true -> exists r, restrict_ctl f = Some r /\ syn_ok f r)).
  intros f IH Hc.
  destruct f as [b|a|g|fs|fs|g h|g|g|g|g h|g h|q|q]; cbn [ctl_state] in Hc; try discriminate Hc.
  - exists (FBool b). split; [reflexivity | apply syn_Bool].
  - exists (FAtom a). split; [reflexivity | apply syn_Atom].
  - destruct (IH g ltac:(cbn [height]; lia) Hc) as [s [Es Hs]].
    exists (LNot s). split; [cbn [restrict_ctl]; rewrite Es; reflexivity | apply syn_Not; exact Hs].
  - rewrite forallb_forall in Hc.
    destruct (all_ctl_syn fs) as [rs [Ers Hrs]].
    { intros g Hg. apply IH; [apply RewriteP.height_In_lt_Or; exact Hg | apply Hc; exact Hg]. }
    exists (FOr rs). split; [rewrite RewriteP.restrict_ctl_FOr, Ers; reflexivity | apply syn_Or; exact Hrs].
  - rewrite forallb_forall in Hc.
    destruct (all_ctl_syn fs) as [rs [Ers Hrs]].
    { intros g Hg. apply IH; [apply RewriteP.height_In_lt_And; exact Hg | apply Hc; exact Hg]. }
    exists (FNot (FOr (map LNot rs))).
    split; [rewrite RewriteP.restrict_ctl_FAnd, Ers; reflexivity | apply syn_And; exact Hrs].
  - apply andb_true_iff in Hc. destruct Hc as [Hg Hh].
    destruct (IH g ltac:(cbn [height]; lia) Hg) as [s0 [E0 H0]].
    destruct (IH h ltac:(cbn [height]; lia) Hh) as [s1 [E1 H1]].
    eexists. split; [cbn [restrict_ctl]; rewrite E0, E1; reflexivity | apply syn_Imp; assumption].
  - (* FA q *)
    destruct q as [b|a|g|fs|fs|g h|g|g|g|g h|g h|q|q]; try discriminate Hc.
    + destruct (IH g ltac:(cbn [height]; lia) Hc) as [s0 [E0 H0]].
      eexists. split; [cbn [restrict_ctl]; rewrite E0; reflexivity | apply syn_AX; assumption].
    + destruct (IH g ltac:(cbn [height]; lia) Hc) as [s0 [E0 H0]].
      eexists. split; [cbn [restrict_ctl]; rewrite E0; reflexivity | apply syn_AF; assumption].
    + destruct (IH g ltac:(cbn [height]; lia) Hc) as [s0 [E0 H0]].
      eexists. split; [cbn [restrict_ctl]; rewrite E0; reflexivity | apply syn_AG; assumption].
    + apply andb_true_iff in Hc. destruct Hc as [Hg Hh].
      destruct (IH g ltac:(cbn [height]; lia) Hg) as [s0 [E0 H0]].
      destruct (IH h ltac:(cbn [height]; lia) Hh) as [s1 [E1 H1]].
      eexists. split; [cbn [restrict_ctl]; rewrite E0, E1; reflexivity | apply syn_AU; assumption].
    + apply andb_true_iff in Hc. destruct Hc as [Hg Hh].
      destruct (IH g ltac:(cbn [height]; lia) Hg) as [s0 [E0 H0]].
      destruct (IH h ltac:(cbn [height]; lia) Hh) as [s1 [E1 H1]].
      eexists. split; [cbn [restrict_ctl]; rewrite E0, E1; reflexivity | apply syn_AR; assumption].
  - (* FE q *)
    destruct q as [b|a|g|fs|fs|g h|g|g|g|g h|g h|q|q]; try discriminate Hc.
    + destruct (IH g ltac:(cbn [height]; lia) Hc) as [s0 [E0 H0]].
      eexists. split; [cbn [restrict_ctl]; rewrite E0; reflexivity | apply syn_EX; assumption].
    + destruct (IH g ltac:(cbn [height]; lia) Hc) as [s0 [E0 H0]].
      eexists. split; [cbn [restrict_ctl]; rewrite E0; reflexivity | apply syn_EF; assumption].
    + destruct (IH g ltac:(cbn [height]; lia) Hc) as [s0 [E0 H0]].
      eexists. split; [cbn [restrict_ctl]; rewrite E0; reflexivity | apply syn_EG; assumption].
    + apply andb_true_iff in Hc. destruct Hc as [Hg Hh].
      destruct (IH g ltac:(cbn [height]; lia) Hg) as [s0 [E0 H0]].
      destruct (IH h ltac:(cbn [height]; lia) Hh) as [s1 [E1 H1]].
      eexists. split; [cbn [restrict_ctl]; rewrite E0, E1; reflexivity | apply syn_EU; assumption].
    + apply andb_true_iff in Hc. destruct Hc as [Hg Hh].
      destruct (IH g ltac:(cbn [height]; lia) Hg) as [s0 [E0 H0]].
      destruct (IH h ltac:(cbn [height]; lia) Hh) as [s1 [E1 H1]].
      eexists. split; [cbn [restrict_ctl]; rewrite E0, E1; reflexivity | apply syn_ER; assumption].
Qed.

(* ====================================================================================== *)
(** * The clean checker: more fuel does not change an answer; enough fuel gives one       *)
(* ====================================================================================== *)
Section Check.
  Variable K : kripke.

  Definition or_step (n : nat) (acc : result (list nat)) (g : form) : result (list nat) :=
    rbind acc (fun a => rbind (check n K g) (fun b => Ok (union a b))).

  Lemma check_FOr n fs : check (S n) K (FOr fs) = fold_left (or_step n) fs (Ok []).
  Proof. reflexivity. Qed.

  Lemma fold_or_err n fs (e : result (list nat)) :
    (forall X, e <> Ok X) -> fold_left (or_step n) fs e = e.
  Proof.
    induction fs as [|g fs IH]; intros He; simpl; [reflexivity|].
    assert (E : or_step n e g = e) by (destruct e; try reflexivity; exfalso; eapply He; reflexivity).
    rewrite E. apply IH. exact He.
  Qed.

  Lemma rbind_inv {A B} (r : result A) (k : A -> result B) b :
    rbind r k = Ok b -> exists a, r = Ok a /\ k a = Ok b.
  Proof. destruct r; simpl; try discriminate. intros H. exists a. auto. Qed.

  Lemma fold_or_inv n g fs acc X :
    fold_left (or_step n) (g :: fs) (Ok acc) = Ok X ->
    exists Y, check n K g = Ok Y /\ fold_left (or_step n) fs (Ok (union acc Y)) = Ok X.
  Proof.
    simpl. destruct (check n K g) as [Y| | | | | |] eqn:E; simpl;
      try (rewrite fold_or_err; [discriminate | intros X0; discriminate]).
    intros H. exists Y. auto.
  Qed.

  Lemma fold_or_mono n n' : forall fs acc X,
    (forall g Y, In g fs -> check n K g = Ok Y -> check n' K g = Ok Y) ->
    fold_left (or_step n) fs (Ok acc) = Ok X -> fold_left (or_step n') fs (Ok acc) = Ok X.
  Proof.
    induction fs as [|g fs IH]; intros acc X Hm H; [exact H|].
    apply fold_or_inv in H. destruct H as [Y [E H]].
    simpl. rewrite (Hm g Y (or_introl eq_refl) E). simpl.
    apply IH; [|exact H]. intros g' Y' Hg'. apply Hm. right. exact Hg'.
  Qed.

  Lemma check_mono : forall n f X, check n K f = Ok X -> check (S n) K f = Ok X.
  Proof.
    induction n as [|n IH]; intros f X H; [discriminate H|].
    destruct (CTLP.direct f) eqn:D.
    - destruct f as [b | a | f | fs | fs | f g | f | f | f | f g | f g | f | f];
        try discriminate D.
      + exact H.
      + exact H.
      + change (rmap (compl K) (check n K f) = Ok X) in H.
        change (rmap (compl K) (check (S n) K f) = Ok X).
        unfold rmap in *. apply rbind_inv in H. destruct H as [Y [E H]].
        rewrite (IH _ _ E). exact H.
      + rewrite check_FOr in *. apply (fold_or_mono n (S n)); [|exact H].
        intros g Y _ E. apply IH. exact E.
      + destruct f as [b | a | f | fs | fs | f g | f | f | f | f g | f g | f | f];
          try discriminate D.
        * change (rmap (checkEX K) (check n K f) = Ok X) in H.
          change (rmap (checkEX K) (check (S n) K f) = Ok X).
          unfold rmap in *. apply rbind_inv in H. destruct H as [Y [E H]].
          rewrite (IH _ _ E). exact H.
        * change (rmap (checkEG K) (check n K f) = Ok X) in H.
          change (rmap (checkEG K) (check (S n) K f) = Ok X).
          unfold rmap in *. apply rbind_inv in H. destruct H as [Y [E H]].
          rewrite (IH _ _ E). exact H.
        * change (rbind (check n K f) (fun a => rbind (check n K g) (fun b => Ok (checkEU K a b))) = Ok X) in H.
          change (rbind (check (S n) K f) (fun a => rbind (check (S n) K g) (fun b => Ok (checkEU K a b))) = Ok X).
          apply rbind_inv in H. destruct H as [Y [E H]].
          apply rbind_inv in H. destruct H as [Z [E' H]].
          rewrite (IH _ _ E). cbn [rbind]. rewrite (IH _ _ E'). exact H.
    - rewrite (CTLP.check_rewrite (S n) K f D). rewrite (CTLP.check_rewrite n K f D) in H.
      destruct (restrict_ctl f) as [r|]; [|exact H]. apply IH. exact H.
  Qed.

  Lemma check_mono_le n n' f X : n <= n' -> check n K f = Ok X -> check n' K f = Ok X.
  Proof. induction 1 as [|m _ IH]; intros H; [exact H|]. apply check_mono. apply IH. exact H. Qed.

  Lemma check_det n1 n2 f X1 X2 : check n1 K f = Ok X1 -> check n2 K f = Ok X2 -> X1 = X2.
  Proof.
    intros H1 H2.
    pose proof (check_mono_le n1 (Nat.max n1 n2) f X1 (Nat.le_max_l _ _) H1) as A.
    pose proof (check_mono_le n2 (Nat.max n1 n2) f X2 (Nat.le_max_r _ _) H2) as B.
    congruence.
  Qed.

  Lemma fold_or_total n : forall fs acc,
    (forall g, In g fs -> exists Y, check n K g = Ok Y) ->
    exists X, fold_left (or_step n) fs (Ok acc) = Ok X.
  Proof.
    induction fs as [|g fs IH]; intros acc Ht; simpl; [exists acc; reflexivity|].
    destruct (Ht g (or_introl eq_refl)) as [Y E]. rewrite E. simpl.
    apply IH. intros g' Hg'. apply Ht. right. exact Hg'.
  Qed.

  (* totality with the fuel bound of CTLP.v (no well-formedness of K needed) *)
  Lemma check_total : forall n f, ctl_state f = true -> CTLP.fuel_ok n f -> exists X, check n K f = Ok X.
  Proof.
    induction n as [|n IH]; intros f C Hf.
    - exfalso. destruct Hf as [[_ H] | H]; lia.
    - destruct (CTLP.direct f) eqn:D.
      + destruct f as [b | a | f | fs | fs | f g | f | f | f | f g | f g | f | f];
          try discriminate D.
        * destruct b; eexists; reflexivity.
        * eexists; reflexivity.
        * simpl in C. destruct (IH f C (CTLP.fuel_not _ _ Hf)) as [Y E].
          exists (compl K Y). simpl. rewrite E. reflexivity.
        * simpl in C. rewrite forallb_forall in C. rewrite check_FOr. apply fold_or_total.
          intros g Hg. apply IH; [apply C; exact Hg|]. eapply CTLP.fuel_or; eassumption.
        * destruct f as [b | a | f | fs | fs | f g | f | f | f | f g | f g | f | f];
            try discriminate D.
          -- simpl in C. destruct (IH f C) as [Y E].
             { eapply CTLP.fuel_E1; [left; reflexivity | exact Hf]. }
             exists (checkEX K Y). simpl. rewrite E. reflexivity.
          -- simpl in C. destruct (IH f C) as [Y E].
             { eapply CTLP.fuel_E1; [right; reflexivity | exact Hf]. }
             exists (checkEG K Y). simpl. rewrite E. reflexivity.
          -- simpl in C. apply andb_prop in C. destruct C as [C1 C2].
             apply CTLP.fuel_EU in Hf. destruct Hf as [F1 F2].
             destruct (IH f C1 F1) as [Y E]. destruct (IH g C2 F2) as [Z E'].
             exists (checkEU K Y Z). simpl. rewrite E, E'. reflexivity.
      + rewrite (CTLP.check_rewrite n K f D).
        destruct (restrict_ctl_syn f C) as [r [Er (Rr & Cr & Hh & _)]]. rewrite Er.
        apply IH; [exact Cr|]. left. split; [exact Rr|].
        destruct Hf as [[R _] | H].
        * apply CTLP.restricted_direct in R. congruence.
        * lia.
  Qed.
End Check.

(* ====================================================================================== *)
(** * CTL: the memo dict is transparent on good formulas                                  *)
(* ====================================================================================== *)
(* good CTL state formulas: the keys of the memo dict *)
Definition gs (f : form) : Prop := ctl_state f = true /\ okstd f = true.

Lemma gs_good f : gs f -> good CTL f = true.
Proof.
  intros [C O]. destruct (okstd_split f O) as [I A].
  unfold good, member. rewrite C, I, A. reflexivity.
Qed.

Lemma key_eq_eq k f : gs k -> gs f -> key_eq k f = true -> k = f.
Proof.
  intros Hk Hf H. apply (eq_obj_iff_tree CTL k f (gs_good k Hk) (gs_good f Hf)). exact H.
Qed.

Lemma gs_FNot g : gs (FNot g) -> gs g.
Proof. intros H; exact H. Qed.
Lemma gs_FOr fs g : gs (FOr fs) -> In g fs -> gs g.
Proof.
  intros [C O] Hg. cbn [ctl_state] in C. rewrite forallb_forall in C.
  rewrite okstd_FOr in O. apply andb_true_iff in O. destruct O as [_ O].
  rewrite forallb_forall in O. split; [apply C | apply O]; exact Hg.
Qed.
Lemma gs_E1 p g : (p = FX g \/ p = FG g) -> gs (FE p) -> gs g.
Proof. intros [-> | ->] H; exact H. Qed.
Lemma gs_EU g h : gs (FE (FU g h)) -> gs g /\ gs h.
Proof.
  intros [C O]. cbn [ctl_state] in C. apply andb_true_iff in C.
  rewrite okstd_FE, okstd_FU in O. apply andb_true_iff in O.
  destruct C, O. split; split; assumption.
Qed.
Lemma gs_restrict f r : gs f -> restrict_ctl f = Some r -> gs r.
Proof.
  intros [C O] E. destruct (restrict_ctl_syn f C) as [r' [E' (_ & Cr & _ & Ho)]].
  rewrite E in E'. injection E' as <-. split; [exact Cr | exact (Ho O)].
Qed.

Section Memo.
  Variable K : kripke.

  (* every entry was computed by the clean checker, and its key is a good formula *)
  Definition Inv (m : memo) : Prop :=
    forall k X, In (k, X) m -> gs k /\ exists n, check n K k = Ok X.

  Lemma Inv_nil : Inv [].
  Proof. intros k X []. Qed.

  Lemma mlookup_In f : forall m X, mlookup f m = Some X -> exists k, In (k, X) m /\ key_eq k f = true.
  Proof.
    induction m as [|[k X0] m IH]; intros X H; [discriminate H|].
    cbn [mlookup] in H. destruct (key_eq k f) eqn:E.
    - injection H as <-. exists k. split; [left; reflexivity | exact E].
    - destruct (IH X H) as [k' [Hin Hk]]. exists k'. split; [right; exact Hin | exact Hk].
  Qed.

  Lemma mstore_Inv f X n : gs f -> check n K f = Ok X -> forall m, Inv m -> Inv (mstore f X m).
  Proof.
    intros Hf Hc. induction m as [|[k X0] m IH]; intros HI.
    - intros k' X' [E | []]. injection E as <- <-. split; [exact Hf | exists n; exact Hc].
    - cbn [mstore]. destruct (key_eq k f) eqn:E.
      + intros k' X' [E' | Hin].
        * injection E' as <- <-. destruct (HI k X0 (or_introl eq_refl)) as [Hk _].
          split; [exact Hk|]. exists n. rewrite (key_eq_eq k f Hk Hf E). exact Hc.
        * apply HI. right. exact Hin.
      + intros k' X' [E' | Hin].
        * apply HI. left. exact E'.
        * apply IH; [|exact Hin]. intros k2 X2 H2. apply HI. right. exact H2.
  Qed.

  Lemma memoized_ok f m n X compute :
    Inv m -> gs f -> check n K f = Ok X ->
    (exists m1, compute tt = Ok (X, m1) /\ Inv m1) ->
    exists m', memoized f m compute = Ok (X, m') /\ Inv m'.
  Proof.
    intros HI Hf Hc Hcomp. unfold memoized. destruct (mlookup f m) as [X0|] eqn:E.
    - apply mlookup_In in E. destruct E as [k [Hin Hk]].
      destruct (HI k X0 Hin) as [Hgk [n0 Hn0]].
      rewrite (key_eq_eq k f Hgk Hf Hk) in Hn0.
      rewrite (check_det K n0 n f X0 X Hn0 Hc). exists m. split; [reflexivity | exact HI].
    - destruct Hcomp as [m1 [Ec I1]]. rewrite Ec. cbn [rbind fst snd].
      exists (mstore f X m1). split; [reflexivity|]. exact (mstore_Inv f X n Hf Hc m1 I1).
  Qed.

  Definition or_step_m (n : nat) (acc : result (list nat * memo)) (g : form) : result (list nat * memo) :=
    rbind acc (fun a => rbind (check_memo n K g (snd a)) (fun b => Ok (union (fst a) (fst b), snd b))).

  (* characteristic equations of check_memo *)
  Lemma cm_FNot n g m : check_memo (S n) K (FNot g) m =
    memoized (FNot g) m (fun _ => rbind (check_memo n K g m) (fun r => Ok (compl K (fst r), snd r))).
  Proof. reflexivity. Qed.
  Lemma cm_FOr n fs m : check_memo (S n) K (FOr fs) m =
    memoized (FOr fs) m (fun _ => fold_left (or_step_m n) fs (Ok ([], m))).
  Proof. reflexivity. Qed.
  Lemma cm_FAtom n a m : check_memo (S n) K (FAtom a) m =
    memoized (FAtom a) m (fun _ => Ok (sat_atom K a, m)).
  Proof. reflexivity. Qed.
  Lemma cm_EX n g m : check_memo (S n) K (FE (FX g)) m =
    memoized (FE (FX g)) m (fun _ => rbind (check_memo n K g m) (fun r => Ok (checkEX K (fst r), snd r))).
  Proof. reflexivity. Qed.
  Lemma cm_EG n g m : check_memo (S n) K (FE (FG g)) m =
    memoized (FE (FG g)) m (fun _ => rbind (check_memo n K g m) (fun r => Ok (checkEG K (fst r), snd r))).
  Proof. reflexivity. Qed.
  Lemma cm_EU n g h m : check_memo (S n) K (FE (FU g h)) m =
    memoized (FE (FU g h)) m (fun _ =>
      rbind (check_memo n K g m) (fun a =>
      rbind (check_memo n K h (snd a)) (fun b => Ok (checkEU K (fst a) (fst b), snd b)))).
  Proof. reflexivity. Qed.
  Lemma cm_rewrite n f m : CTLP.direct f = false ->
    check_memo (S n) K f m =
    match restrict_ctl f with
    | Some r => rbind (check_memo n K r m) (fun x => Ok (fst x, mstore f (fst x) (snd x)))
    | None => TypeErr
    end.
  Proof.
    destruct f as [b | a | f | fs | fs | f g | f | f | f | f g | f g | f | f];
      simpl CTLP.direct; try discriminate; try reflexivity.
    destruct f; try discriminate; reflexivity.
  Qed.

  Definition step_ok (n : nat) : Prop :=
    forall f m X, Inv m -> gs f -> check n K f = Ok X ->
      exists m', check_memo n K f m = Ok (X, m') /\ Inv m'.

  Lemma fold_or_memo n : step_ok n -> forall fs acc m X,
    Inv m -> (forall g, In g fs -> gs g) ->
    fold_left (or_step K n) fs (Ok acc) = Ok X ->
    exists m', fold_left (or_step_m n) fs (Ok (acc, m)) = Ok (X, m') /\ Inv m'.
  Proof.
    intros IH. induction fs as [|g fs IHfs]; intros acc m X HI Hg H.
    - injection H as <-. exists m. split; [reflexivity | exact HI].
    - apply fold_or_inv in H. destruct H as [Y [E H]].
      destruct (IH g m Y HI (Hg g (or_introl eq_refl)) E) as [m1 [E1 I1]].
      destruct (IHfs (union acc Y) m1 X I1 (fun g' Hg' => Hg g' (or_intror Hg')) H) as [m2 [E2 I2]].
      exists m2. split; [|exact I2].
      cbn [fold_left]. unfold or_step_m at 2. cbn [rbind fst snd]. rewrite E1. cbn [rbind fst snd].
      exact E2.
  Qed.

  Lemma check_memo_step : forall n, step_ok n.
  Proof.
    induction n as [|n IH]; intros f m X HI Hf H; [discriminate H|].
    destruct (CTLP.direct f) eqn:D.
    - destruct f as [b | a | f | fs | fs | f g | f | f | f | f g | f g | f | f];
        try discriminate D.
      + (* Bool: stored, never looked up *)
        destruct b; cbn [check] in H; injection H as <-; cbn [check_memo];
          eexists; (split; [reflexivity|]);
          (eapply (mstore_Inv _ _ 1); [split; reflexivity | reflexivity | exact HI]).
      + rewrite cm_FAtom. apply (memoized_ok _ _ (S n) _ _ HI Hf H).
        cbn [check] in H. injection H as <-. exists m. split; [reflexivity | exact HI].
      + rewrite cm_FNot. apply (memoized_ok _ _ (S n) _ _ HI Hf H).
        change (rmap (compl K) (check n K f) = Ok X) in H. unfold rmap in H.
        apply rbind_inv in H. destruct H as [Y [E H]]. injection H as <-.
        destruct (IH f m Y HI (gs_FNot f Hf) E) as [m1 [E1 I1]].
        exists m1. rewrite E1. split; [reflexivity | exact I1].
      + rewrite cm_FOr. apply (memoized_ok _ _ (S n) _ _ HI Hf H).
        rewrite check_FOr in H.
        exact (fold_or_memo n IH fs [] m X HI (fun g Hg => gs_FOr fs g Hf Hg) H).
      + destruct f as [b | a | f | fs | fs | f g | f | f | f | f g | f g | f | f];
          try discriminate D.
        * rewrite cm_EX. apply (memoized_ok _ _ (S n) _ _ HI Hf H).
          change (rmap (checkEX K) (check n K f) = Ok X) in H. unfold rmap in H.
          apply rbind_inv in H. destruct H as [Y [E H]]. injection H as <-.
          destruct (IH f m Y HI (gs_E1 _ f (or_introl eq_refl) Hf) E) as [m1 [E1 I1]].
          exists m1. rewrite E1. split; [reflexivity | exact I1].
        * rewrite cm_EG. apply (memoized_ok _ _ (S n) _ _ HI Hf H).
          change (rmap (checkEG K) (check n K f) = Ok X) in H. unfold rmap in H.
          apply rbind_inv in H. destruct H as [Y [E H]]. injection H as <-.
          destruct (IH f m Y HI (gs_E1 _ f (or_intror eq_refl) Hf) E) as [m1 [E1 I1]].
          exists m1. rewrite E1. split; [reflexivity | exact I1].
        * rewrite cm_EU. apply (memoized_ok _ _ (S n) _ _ HI Hf H).
          change (rbind (check n K f) (fun a => rbind (check n K g) (fun b => Ok (checkEU K a b))) = Ok X) in H.
          apply rbind_inv in H. destruct H as [Y [E H]].
          apply rbind_inv in H. destruct H as [Z [E' H]]. injection H as <-.
          destruct (gs_EU f g Hf) as [Gf Gg].
          destruct (IH f m Y HI Gf E) as [m1 [E1 I1]].
          destruct (IH g m1 Z I1 Gg E') as [m2 [E2 I2]].
          exists m2. rewrite E1. cbn [rbind fst snd]. rewrite E2. split; [reflexivity | exact I2].
    - rewrite (cm_rewrite n f m D). pose proof H as H0.
      rewrite (CTLP.check_rewrite n K f D) in H.
      destruct (restrict_ctl f) as [r|] eqn:Er; [|discriminate H].
      destruct (IH r m X HI (gs_restrict f r Hf Er) H) as [m1 [E1 I1]].
      rewrite E1. cbn [rbind fst snd]. exists (mstore f X m1). split; [reflexivity|].
      exact (mstore_Inv f X (S n) Hf H0 m1 I1).
  Qed.
End Memo.

(* The memo table is transparent: same answer, as the SAME list (not only the same set). *)
Theorem check_memo_sound : forall K f,
  ctl_state f = true -> ident_atoms f = true -> arity_ok f = true ->
  ctl_modelcheck_memo K f = ctl_modelcheck K f.
Proof.
  intros K f C I A. unfold ctl_modelcheck_memo, ctl_modelcheck. rewrite C.
  destruct (check_total K (ctl_fuel f) f C) as [X E].
  { right. unfold ctl_fuel. lia. }
  rewrite E.
  destruct (check_memo_step K (ctl_fuel f) f [] X (Inv_nil K) (conj C (okstd_join f I A)) E) as [m' [E' _]].
  rewrite E'. reflexivity.
Qed.

(* ====================================================================================== *)
(** * LTL: membership by printed form = structural membership on good LTL formulas        *)
(* ====================================================================================== *)
Definition gl (f : form) : Prop := ltl_path f = true /\ okstd f = true.

Lemma gl_good f : gl f -> good LTL f = true.
Proof.
  intros [C O]. destruct (okstd_split f O) as [I A].
  unfold good, member. rewrite C, I, A. reflexivity.
Qed.

Lemma feq_spec k f : gl k -> gl f -> eq_print_ltl k f = form_eqb f k.
Proof.
  intros Hk Hf. unfold eq_print_ltl.
  pose proof (eq_obj_iff_tree LTL k f (gl_good k Hk) (gl_good f Hf)) as H1.
  pose proof (LTLP.form_eqb_iff f k) as H2.
  destruct (eq_obj (LTL, k) (LTL, f)), (form_eqb f k); try reflexivity.
  - destruct H1 as [H1 _]. destruct H2 as [_ H2]. symmetry. apply H2. symmetry. apply H1. reflexivity.
  - destruct H1 as [_ H1]. destruct H2 as [H2 _]. apply H1. symmetry. apply H2. reflexivity.
Qed.

Lemma memq_memf f l : gl f -> Forall gl l -> memq eq_print_ltl f l = memf f l.
Proof.
  intros Hf. induction 1 as [|k l Hk _ IH]; [reflexivity|].
  cbn [memq memf existsb]. fold (memq eq_print_ltl f l). fold (memf f l).
  rewrite (feq_spec k f Hk Hf), IH. reflexivity.
Qed.

Lemma gl_FNot g : gl (FNot g) -> gl g. Proof. intros H; exact H. Qed.
Lemma gl_FX g : gl g -> gl (FX g). Proof. intros H; exact H. Qed.
Lemma gl_FX_inv g : gl (FX g) -> gl g. Proof. intros H; exact H. Qed.
Lemma gl_FNot_intro g : gl g -> gl (FNot g). Proof. intros H; exact H. Qed.
Lemma gl_FOr fs x : gl (FOr fs) -> In x fs -> gl x.
Proof.
  intros [C O] Hx. cbn [ltl_path] in C. rewrite forallb_forall in C.
  rewrite okstd_FOr in O. apply andb_true_iff in O. destruct O as [_ O].
  rewrite forallb_forall in O. split; [apply C | apply O]; exact Hx.
Qed.
Lemma gl_FU g h : gl (FU g h) -> gl g /\ gl h.
Proof.
  intros [C O]. cbn [ltl_path] in C. apply andb_true_iff in C.
  rewrite okstd_FU in O. apply andb_true_iff in O. destruct C, O. split; split; assumption.
Qed.
Lemma gl_LNot f : gl f -> gl (LNot f).
Proof. intros [C O]. split; [rewrite RewriteP.LNot_ltl_path_eq; exact C | rewrite okstd_LNot; exact O]. Qed.

Lemma existsb_ext_in {A} (f g : A -> bool) l : (forall x, In x l -> f x = g x) -> existsb f l = existsb g l.
Proof.
  induction l as [|a l IH]; intros H; [reflexivity|]. simpl.
  rewrite (H a (or_introl eq_refl)), IH; [reflexivity|]. intros x Hx. apply H. right. exact Hx.
Qed.
Lemma forallb_ext_in {A} (f g : A -> bool) l : (forall x, In x l -> f x = g x) -> forallb f l = forallb g l.
Proof.
  induction l as [|a l IH]; intros H; [reflexivity|]. simpl.
  rewrite (H a (or_introl eq_refl)), IH; [reflexivity|]. intros x Hx. apply H. right. exact Hx.
Qed.

Lemma holds_in_eq lab Xs : Forall gl Xs -> forall f, gl f ->
  holds_in_q eq_print_ltl lab Xs f = holds_in lab Xs f.
Proof.
  intros HXs. induction f using LTLP.form_ind'; intros Hf; try reflexivity.
  - cbn [holds_in_q holds_in]. rewrite IHf; [reflexivity | exact (gl_FNot f Hf)].
  - cbn [holds_in_q holds_in]. apply existsb_ext_in. intros x Hx.
    rewrite Forall_forall in H. apply H; [exact Hx | exact (gl_FOr fs x Hf Hx)].
  - cbn [holds_in_q holds_in]. apply memq_memf; assumption.
  - destruct (gl_FU _ _ Hf) as [H1 H2]. cbn [holds_in_q holds_in].
    rewrite IHf1, IHf2 by assumption. rewrite memq_memf; [reflexivity | exact (gl_FX _ Hf) | exact HXs].
Qed.

Lemma xstep_gl acc f : gl f -> (forall Xs, In Xs acc -> Forall gl Xs) ->
  forall Xs, In Xs (LTLP.xstep acc f) -> Forall gl Xs.
Proof.
  intros Hf Hacc Xs H. unfold LTLP.xstep in H. destruct f; try (apply Hacc; exact H).
  apply in_app_or in H. destruct H as [H|H]; apply in_map_iff in H; destruct H as [Ys [<- HY]];
    constructor; try (apply Hacc; exact HY).
  - exact Hf.
  - apply gl_FX. apply gl_LNot. exact (gl_FX_inv _ Hf).
Qed.

Lemma X_choices_gl cl : Forall gl cl -> forall Xs, In Xs (X_choices cl) -> Forall gl Xs.
Proof.
  intros Hcl. rewrite LTLP.X_choices_eq.
  assert (Hl : Forall gl (filter free_X cl)).
  { rewrite Forall_forall in *. intros x Hx. apply filter_In in Hx. apply Hcl. tauto. }
  assert (G : forall l acc, Forall gl l -> (forall Xs, In Xs acc -> Forall gl Xs) ->
              forall Xs, In Xs (fold_left LTLP.xstep l acc) -> Forall gl Xs).
  { induction l as [|f l IH]; intros acc Hfl Hacc; [exact Hacc|].
    inversion Hfl as [|? ? Hf Hl']; subst. cbn [fold_left]. apply IH; [exact Hl'|].
    apply xstep_gl; assumption. }
  apply (G _ _ Hl). intros Xs [<- | []]. constructor.
Qed.

Lemma atoms_eq K cl : Forall gl cl -> atoms_q eq_print_ltl K cl = atoms K cl.
Proof.
  intros Hcl. unfold atoms_q, atoms. apply flat_map_ext. intros s.
  apply map_ext_in. intros Xs HXs. f_equal. apply filter_ext_in. intros f Hf.
  apply holds_in_eq; [exact (X_choices_gl cl Hcl Xs HXs)|].
  rewrite Forall_forall in Hcl. apply Hcl. exact Hf.
Qed.

Lemma atom_at_gl K cl i : Forall gl cl -> Forall gl (snd (atom_at (atoms K cl) i)).
Proof.
  intros Hcl. unfold atom_at.
  destruct (nth_in_or_default i (atoms K cl) (0, [])) as [Hin | E]; [|rewrite E; constructor].
  revert Hin. generalize (nth i (atoms K cl) (0, [])). intros a Hin.
  unfold atoms in Hin. apply in_flat_map in Hin. destruct Hin as [s [_ Hin]].
  apply in_map_iff in Hin. destruct Hin as [Xs [<- _]]. cbn [snd].
  rewrite Forall_forall in *. intros x Hx. apply filter_In in Hx. apply Hcl. tauto.
Qed.

Lemma respects_eq Xcl a b : Forall gl Xcl -> Forall gl a -> Forall gl b ->
  respects_q eq_print_ltl Xcl a b = respects Xcl a b.
Proof.
  intros HX Ha Hb. unfold respects_q, respects. apply forallb_ext_in. intros f Hf.
  rewrite Forall_forall in HX. specialize (HX f Hf). destruct f; try reflexivity.
  rewrite (memq_memf _ _ (gl_FX_inv _ HX) Hb), (memq_memf _ _ HX Ha). reflexivity.
Qed.

Lemma tableau_eq K cl : Forall gl cl ->
  tableau_q eq_print_ltl K cl (atoms K cl) = tableau K cl (atoms K cl).
Proof.
  intros Hcl. unfold tableau_q, tableau. apply map_ext. intros i. f_equal.
  apply filter_ext. intros j. f_equal. apply respects_eq.
  - rewrite Forall_forall in *. intros x Hx. apply filter_In in Hx. apply Hcl. tauto.
  - apply atom_at_gl. exact Hcl.
  - apply atom_at_gl. exact Hcl.
Qed.

Lemma self_fulfilling_eq K cl T C : Forall gl cl ->
  self_fulfilling_q eq_print_ltl cl (atoms K cl) T C = self_fulfilling cl (atoms K cl) T C.
Proof.
  intros Hcl. unfold self_fulfilling_q, self_fulfilling. f_equal.
  assert (Hfs : Forall gl (flat_map (fun i => snd (atom_at (atoms K cl) i)) C)).
  { rewrite Forall_forall. intros x Hx. apply in_flat_map in Hx. destruct Hx as [i [_ Hx]].
    pose proof (atom_at_gl K cl i Hcl) as H. rewrite Forall_forall in H. apply H. exact Hx. }
  apply forallb_ext_in. intros f Hf. rewrite Forall_forall in Hcl. specialize (Hcl f Hf).
  destruct f; try reflexivity.
  destruct (gl_FU _ _ Hcl) as [_ H2].
  rewrite (memq_memf _ _ Hcl Hfs), (memq_memf _ _ H2 Hfs). reflexivity.
Qed.

Lemma checkE_path_cl_eq K p : Forall gl (dedupf (closure p)) -> gl p ->
  checkE_path_cl eq_print_ltl K (dedupf (closure p)) p = checkE_path K p.
Proof.
  intros Hcl Hp. unfold checkE_path_cl, checkE_path.
  rewrite (atoms_eq K _ Hcl). rewrite (tableau_eq K _ Hcl).
  set (cl := dedupf (closure p)) in *. set (ats := atoms K cl). set (T := tableau K cl ats).
  assert (E : flat_map (fun C => if self_fulfilling_q eq_print_ltl cl ats T C then C else []) (compute_SCCs T)
            = flat_map (fun C => if self_fulfilling cl ats T C then C else []) (compute_SCCs T)).
  { apply flat_map_ext. intros C. unfold ats. rewrite (self_fulfilling_eq K cl T C Hcl). reflexivity. }
  rewrite E. f_equal. f_equal. apply filter_ext. intros i.
  apply memq_memf; [exact Hp | apply atom_at_gl; exact Hcl].
Qed.

(* ====================================================================================== *)
(** * LTL: the worklist of _get_closure computes the structural closure                   *)
(* ====================================================================================== *)
Lemma pushes_has_LNot f ps : pushes f = Some ps -> In (LNot f) ps.
Proof.
  destruct f as [b|a|g|fs|fs|g h|g|g|g|g h|g h|g|g]; cbn [pushes]; try discriminate.
  - intros H; injection H as <-. left. reflexivity.
  - intros H; injection H as <-. left. reflexivity.
  - destruct g; intros H; injection H as <-; cbn [In]; auto.
  - intros H; injection H as <-. apply in_or_app. right. left. reflexivity.
  - intros H; injection H as <-. cbn [In]. auto.
  - intros H; injection H as <-. cbn [In]. auto.
Qed.

Lemma pushes_normal f : LTLP.normalb f = true -> exists ps, pushes f = Some ps.
Proof.
  destruct f as [b|a|g|fs|fs|g h|g|g|g|g h|g h|g|g]; cbn [LTLP.normalb pushes]; try discriminate;
    intros _; try (eexists; reflexivity).
  destruct g; eexists; reflexivity.
Qed.

Lemma pushes_gl f ps : gl f -> pushes f = Some ps -> Forall gl ps.
Proof.
  intros Hf. pose proof (gl_LNot f Hf) as HL.
  destruct f as [b|a|g|fs|fs|g h|g|g|g|g h|g h|g|g]; cbn [pushes]; try discriminate.
  - intros H; injection H as <-. apply Forall_cons; [exact HL | apply Forall_nil].
  - intros H; injection H as <-. apply Forall_cons; [exact HL | apply Forall_nil].
  - destruct g; intros H; injection H as <-;
      try (apply Forall_cons; [exact HL | apply Forall_nil]).
    apply Forall_cons; [|apply Forall_cons; [exact HL | apply Forall_nil]].
    apply gl_FX. apply gl_LNot. exact Hf.
  - intros H; injection H as <-. rewrite Forall_forall. intros x Hx.
    apply in_app_or in Hx. destruct Hx as [Hx | [<- | []]]; [|exact HL].
    apply in_rev in Hx. exact (gl_FOr fs x Hf Hx).
  - intros H; injection H as <-.
    apply Forall_cons; [exact Hf | apply Forall_cons; [exact HL | apply Forall_nil]].
  - intros H; injection H as <-. destruct (gl_FU _ _ Hf) as [H1 H2].
    apply Forall_cons; [exact Hf|]. apply Forall_cons; [exact H2|]. apply Forall_cons; [exact H1|].
    apply Forall_cons; [exact HL | apply Forall_nil].
Qed.

Lemma LNot_LNot_normal g : LTLP.normalb g = true -> LNot (LNot g) = g.
Proof.
  intros Hn. destruct (LTLP.notneg g) eqn:E.
  - rewrite (LTLP.LNot_notneg g E). apply LTLP.LNot_FNot. exact E.
  - destruct g; try discriminate E. apply LTLP.normalb_FNot in Hn. destruct Hn as [H1 H2].
    rewrite (LTLP.LNot_FNot g H1). apply LTLP.LNot_notneg. exact H1.
Qed.

(* any set closed under [pushes] that contains a normal f contains [closure f] *)
Lemma closure_least S :
  (forall f ps, In f S -> pushes f = Some ps -> incl ps S) ->
  forall f, LTLP.normalb f = true -> In f S -> incl (closure f) S.
Proof.
  intros HS.
  assert (HL : forall f, LTLP.normalb f = true -> In f S -> In (LNot f) S).
  { intros f Hn Hf. destruct (pushes_normal f Hn) as [ps E].
    apply (HS f ps Hf E). exact (pushes_has_LNot f ps E). }
  induction f using LTLP.form_ind'; intros Hn Hf; try discriminate Hn.
  - intros x Hx. cbn [closure base In] in Hx. destruct Hx as [<-|[<-|[]]]; [exact Hf | exact (HL _ Hn Hf)].
  - intros x Hx. cbn [closure base In] in Hx. destruct Hx as [<-|[<-|[]]]; [exact Hf | exact (HL _ Hn Hf)].
  - pose proof (HL _ Hn Hf) as H1. apply LTLP.normalb_FNot in Hn. destruct Hn as [Hg Hn'].
    rewrite (LTLP.LNot_FNot f Hg) in H1. change (closure (FNot f)) with (closure f).
    apply IHf; assumption.
  - pose proof (HS (FOr fs) _ Hf eq_refl) as Hp. cbn [LTLP.normalb] in Hn. rewrite forallb_forall in Hn.
    intros x Hx. cbn [closure] in Hx. apply in_app_or in Hx. destruct Hx as [Hx | Hx].
    + cbn [base In] in Hx. destruct Hx as [<-|[<-|[]]]; [exact Hf | exact (HL (FOr fs) ltac:(cbn [LTLP.normalb]; apply forallb_forall; exact Hn) Hf)].
    + apply in_flat_map in Hx. destruct Hx as [y [Hy Hx]]. rewrite Forall_forall in H.
      apply (H y Hy (Hn y Hy)); [|exact Hx]. apply Hp. apply in_or_app. left. apply -> in_rev. exact Hy.
  - pose proof (HS (FX f) _ Hf eq_refl) as Hp. cbn [LTLP.normalb] in Hn.
    assert (Hg : In f S) by (apply Hp; left; reflexivity).
    assert (H1 : In (FNot (FX f)) S) by (apply Hp; right; left; reflexivity).
    pose proof (HS (FNot (FX f)) _ H1 eq_refl) as Hp1.
    assert (H2 : In (FX (LNot f)) S) by (apply Hp1; left; reflexivity).
    assert (H3 : In (LNot (FX (LNot f))) S).
    { apply HL; [|exact H2]. cbn [LTLP.normalb]. apply LTLP.LNot_normal. exact Hn. }
    intros x Hx. cbn [closure] in Hx. apply in_app_or in Hx. destruct Hx as [Hx | Hx].
    { cbn [base In] in Hx. destruct Hx as [<-|[<-|[]]]; [exact Hf | exact H1]. }
    apply in_app_or in Hx. destruct Hx as [Hx | Hx].
    { cbn [base In] in Hx. destruct Hx as [<-|[<-|[]]]; [exact H2 | exact H3]. }
    apply (IHf Hn Hg). exact Hx.
  - pose proof (HS (FU f1 f2) _ Hf eq_refl) as Hp. pose proof Hn as Hn0.
    cbn [LTLP.normalb] in Hn. apply andb_true_iff in Hn. destruct Hn as [Hn1 Hn2].
    assert (HX : In (FX (FU f1 f2)) S) by (apply Hp; left; reflexivity).
    assert (H2 : In f2 S) by (apply Hp; right; left; reflexivity).
    assert (H1 : In f1 S) by (apply Hp; right; right; left; reflexivity).
    assert (HN : In (FNot (FU f1 f2)) S) by (apply Hp; right; right; right; left; reflexivity).
    assert (HNX : In (FNot (FX (FU f1 f2))) S).
    { apply (HL (FX (FU f1 f2))); [exact Hn0 | exact HX]. }
    pose proof (HS (FNot (FX (FU f1 f2))) _ HNX eq_refl) as Hp1.
    assert (HXN : In (FX (FNot (FU f1 f2))) S) by (apply Hp1; left; reflexivity).
    assert (HNXN : In (FNot (FX (FNot (FU f1 f2)))) S).
    { apply (HL (FX (FNot (FU f1 f2)))); [cbn [LTLP.normalb LTLP.notneg]; rewrite Hn1, Hn2; reflexivity | exact HXN]. }
    intros x Hx. cbn [closure] in Hx. apply in_app_or in Hx. destruct Hx as [Hx | Hx].
    { cbn [base In] in Hx. destruct Hx as [<-|[<-|[]]]; [exact Hf | exact HN]. }
    apply in_app_or in Hx. destruct Hx as [Hx | Hx]; [exact (IHf1 Hn1 H1 x Hx)|].
    apply in_app_or in Hx. destruct Hx as [Hx | Hx]; [exact (IHf2 Hn2 H2 x Hx)|].
    apply in_app_or in Hx. destruct Hx as [Hx | Hx].
    { cbn [base In] in Hx. destruct Hx as [<-|[<-|[]]]; [exact HX | exact HNX]. }
    cbn [base In] in Hx. destruct Hx as [<-|[<-|[]]]; [exact HXN | exact HNXN].
Qed.

(* [closure p] is closed under [pushes] *)
Definition pc (cl : list form) (f : form) : Prop := exists ps, pushes f = Some ps /\ incl ps cl.

Lemma pc_mono cl cl' f : incl cl cl' -> pc cl f -> pc cl' f.
Proof. intros Hi [ps [E H]]. exists ps. split; [exact E|]. intros x Hx. apply Hi. apply H. exact Hx. Qed.

Lemma incl_list2 {A} (a b : A) l : In a l -> In b l -> incl [a; b] l.
Proof. intros Ha Hb x [<-|[<-|[]]]; assumption. Qed.

Lemma pushes_closed : forall p, LTLP.normalb p = true -> forall f, In f (closure p) -> pc (closure p) f.
Proof.
  induction p using LTLP.form_ind'; intros Hn; try discriminate Hn.
  - intros f Hf. cbn [closure base In] in Hf. destruct Hf as [<-|[<-|[]]]; eexists; (split; [reflexivity|]);
      intros x [<-|[]]; cbn; auto.
  - intros f Hf. cbn [closure base In] in Hf. destruct Hf as [<-|[<-|[]]]; eexists; (split; [reflexivity|]);
      intros x [<-|[]]; cbn; auto.
  - apply LTLP.normalb_FNot in Hn. destruct Hn as [_ Hn]. change (closure (FNot p)) with (closure p).
    apply IHp. exact Hn.
  - assert (Hall : forall x, In x fs -> LTLP.normalb x = true).
    { cbn [LTLP.normalb] in Hn. rewrite forallb_forall in Hn. exact Hn. }
    assert (Hsub : forall x, In x fs -> incl (closure x) (closure (FOr fs))).
    { intros x Hx y Hy. cbn [closure]. apply in_or_app. right. apply in_flat_map. exists x. auto. }
    assert (Hs : In (FOr fs) (closure (FOr fs))) by (cbn; auto).
    assert (Hns : In (FNot (FOr fs)) (closure (FOr fs))) by (cbn; auto).
    intros f Hf. cbn [closure] in Hf. apply in_app_or in Hf. destruct Hf as [Hf | Hf].
    + cbn [base In] in Hf. destruct Hf as [<-|[<-|[]]].
      * eexists. split; [reflexivity|]. intros x Hx. apply in_app_or in Hx. destruct Hx as [Hx | [<-|[]]].
        -- apply in_rev in Hx. apply (Hsub x Hx). apply LTLP.self_in_closure. exact (Hall x Hx).
        -- exact Hns.
      * eexists. split; [reflexivity|]. intros x [<-|[]]. exact Hs.
    + apply in_flat_map in Hf. destruct Hf as [x [Hx Hf]].
      apply pc_mono with (closure x); [exact (Hsub x Hx)|].
      rewrite Forall_forall in H. exact (H x Hx (Hall x Hx) f Hf).
  - cbn [LTLP.normalb] in Hn.
    destruct (LTLP.self_in_closure p Hn) as [Hs1 Hs2].
    assert (Hsub : incl (closure p) (closure (FX p))).
    { intros y Hy. cbn [closure]. apply in_or_app. right. apply in_or_app. right. exact Hy. }
    assert (Ha : In (FX p) (closure (FX p))) by (cbn; auto).
    assert (Hb : In (FNot (FX p)) (closure (FX p))) by (cbn; auto).
    assert (Hc : In (FX (LNot p)) (closure (FX p))) by (cbn; auto).
    assert (Hd : In (FNot (FX (LNot p))) (closure (FX p))) by (cbn; auto).
    intros f Hf. cbn [closure] in Hf. apply in_app_or in Hf. destruct Hf as [Hf | Hf].
    { cbn [base In] in Hf. destruct Hf as [<-|[<-|[]]].
      - eexists. split; [reflexivity|]. apply incl_list2; [apply Hsub; exact Hs1 | exact Hb].
      - eexists. split; [reflexivity|]. apply incl_list2; [exact Hc | exact Ha]. }
    apply in_app_or in Hf. destruct Hf as [Hf | Hf].
    { cbn [base In] in Hf. destruct Hf as [<-|[<-|[]]].
      - eexists. split; [reflexivity|]. apply incl_list2; [apply Hsub; exact Hs2 | exact Hd].
      - eexists. split; [reflexivity|]. cbn [LNot]. rewrite (LNot_LNot_normal p Hn).
        apply incl_list2; [exact Ha | exact Hc]. }
    apply pc_mono with (closure p); [exact Hsub | exact (IHp Hn f Hf)].
  - pose proof Hn as Hn0. cbn [LTLP.normalb] in Hn. apply andb_true_iff in Hn. destruct Hn as [Hn1 Hn2].
    set (u := FU p1 p2) in *.
    assert (Hsub1 : incl (closure p1) (closure u)).
    { intros y Hy. unfold u. cbn [closure]. apply in_or_app. right. apply in_or_app. left. exact Hy. }
    assert (Hsub2 : incl (closure p2) (closure u)).
    { intros y Hy. unfold u. cbn [closure]. apply in_or_app. right. apply in_or_app. right.
      apply in_or_app. left. exact Hy. }
    assert (Htail : forall y, In y [FX u; FNot (FX u); FX (FNot u); FNot (FX (FNot u))] -> In y (closure u)).
    { intros y Hy. unfold u. cbn [closure]. apply in_or_app. right. apply in_or_app. right.
      apply in_or_app. right. exact Hy. }
    destruct (LTLP.self_in_closure p1 Hn1) as [Hs1 _].
    destruct (LTLP.self_in_closure p2 Hn2) as [Hs2 _].
    assert (Hself : In u (closure u)) by (unfold u; cbn; auto).
    assert (Hnself : In (FNot u) (closure u)) by (unfold u; cbn; auto).
    intros f Hf. unfold u in Hf. cbn [closure] in Hf. fold u in Hf.
    apply in_app_or in Hf. destruct Hf as [Hf | Hf].
    { cbn [base In] in Hf. destruct Hf as [<-|[<-|[]]].
      - eexists. split; [reflexivity|]. intros x [<-|[<-|[<-|[<-|[]]]]].
        + apply Htail. cbn; auto.
        + apply Hsub2. exact Hs2.
        + apply Hsub1. exact Hs1.
        + exact Hnself.
      - eexists. split; [reflexivity|]. intros x [<-|[]]. exact Hself. }
    apply in_app_or in Hf. destruct Hf as [Hf | Hf].
    { apply pc_mono with (closure p1); [exact Hsub1 | exact (IHp1 Hn1 f Hf)]. }
    apply in_app_or in Hf. destruct Hf as [Hf | Hf].
    { apply pc_mono with (closure p2); [exact Hsub2 | exact (IHp2 Hn2 f Hf)]. }
    apply in_app_or in Hf. destruct Hf as [Hf | Hf].
    { cbn [base In] in Hf. destruct Hf as [<-|[<-|[]]].
      - eexists. split; [reflexivity|]. apply incl_list2; [exact Hself | apply Htail; cbn; auto].
      - eexists. split; [reflexivity|]. apply incl_list2; apply Htail; cbn; auto. }
    cbn [base In] in Hf. destruct Hf as [<-|[<-|[]]].
    + eexists. split; [reflexivity|]. apply incl_list2; [exact Hnself | apply Htail; cbn; auto].
    + eexists. split; [reflexivity|]. apply incl_list2; apply Htail; cbn; auto.
Qed.

Lemma dedupf_NoDup l : NoDup (dedupf l).
Proof.
  induction l as [|x l IH]; cbn [dedupf]; [constructor|].
  destruct (memf x l) eqn:E; [exact IH|]. constructor; [|exact IH].
  intros H. apply (proj1 (LTLP.dedupf_In x l)) in H. apply (proj2 (LTLP.memf_In x l)) in H. congruence.
Qed.

Lemma list_sum_cons a l : list_sum (a :: l) = a + list_sum l.
Proof. reflexivity. Qed.

Lemma sum_dedupf_le (w : form -> nat) l : list_sum (map w (dedupf l)) <= list_sum (map w l).
Proof.
  induction l as [|x l IH]; cbn [dedupf map]; [lia|].
  destruct (memf x l); cbn [map]; rewrite ?list_sum_cons; lia.
Qed.

Lemma filter_all_true {A} (f : A -> bool) l : (forall x, In x l -> f x = true) -> filter f l = l.
Proof.
  induction l as [|a l IH]; intros H; [reflexivity|]. cbn [filter].
  rewrite (H a (or_introl eq_refl)), IH; [reflexivity|]. intros x Hx. apply H. right. exact Hx.
Qed.
Lemma filter_all_false {A} (f : A -> bool) l : (forall x, In x l -> f x = false) -> filter f l = [].
Proof.
  induction l as [|a l IH]; intros H; [reflexivity|]. cbn [filter].
  rewrite (H a (or_introl eq_refl)). apply IH. intros x Hx. apply H. right. exact Hx.
Qed.

Lemma form_eqb_false u v : u <> v -> form_eqb u v = false.
Proof. intros H. destruct (form_eqb u v) eqn:E; [|reflexivity]. apply LTLP.form_eqb_eq in E. contradiction. Qed.

Lemma memf_cons u phi cl : memf u (phi :: cl) = form_eqb u phi || memf u cl.
Proof. reflexivity. Qed.

Lemma sum_remove (w : form -> nat) phi cl : memf phi cl = false -> forall l, NoDup l -> In phi l ->
  list_sum (map w (filter (fun u => negb (memf u (phi :: cl))) l)) + w phi
  = list_sum (map w (filter (fun u => negb (memf u cl)) l)).
Proof.
  intros Hc. induction l as [|a l IH]; intros ND Hin; [destruct Hin|].
  inversion ND as [|? ? Ha ND']; subst. cbn [filter]. rewrite memf_cons.
  destruct Hin as [-> | Hin].
  - rewrite LTLP.form_eqb_refl, Hc. cbn [orb negb map]; rewrite ?list_sum_cons.
    assert (E : filter (fun u => negb (memf u (phi :: cl))) l = filter (fun u => negb (memf u cl)) l).
    { apply filter_ext_in. intros u Hu. rewrite memf_cons, form_eqb_false; [reflexivity|].
      intros ->. contradiction. }
    rewrite E. lia.
  - rewrite form_eqb_false by (intros ->; contradiction). cbn [orb].
    specialize (IH ND' Hin). destruct (memf a cl); cbn [negb map]; rewrite ?list_sum_cons; lia.
Qed.

Section WL.
  Variable p : form.
  Hypothesis Hn : LTLP.normalb p = true.
  Hypothesis Hg : gl p.
  Local Notation U := (closure p).
  Local Notation L := (dedupf (closure p)).
  Local Notation feq := eq_print_ltl.

  Definition rest (cl : list form) : list form := filter (fun u => negb (memf u cl)) L.
  Definition mu (T cl : list form) : nat := List.length T + list_sum (map (wl_weight) (rest cl)).

  Record WI (T cl : list form) : Prop := {
    wi_glT : Forall gl T;
    wi_glc : Forall gl cl;
    wi_T : incl T U;
    wi_c : incl cl U;
    wi_closed : forall f ps, In f cl -> pushes f = Some ps -> incl ps (cl ++ T);
    wi_p : In p (cl ++ T) }.

  Lemma wl_run : forall fuel T cl, WI T cl -> mu T cl < fuel ->
    exists W, closure_wl feq fuel T cl = Ok W /\ WI [] W.
  Proof.
    induction fuel as [|n IH]; intros T cl HI Hmu; [lia|].
    destruct T as [|phi T'].
    - exists cl. split; [reflexivity | exact HI].
    - destruct HI as [HglT Hglc HT Hc Hcl Hp].
      inversion HglT as [|? ? Hgphi HglT']; subst.
      cbn [closure_wl]. rewrite (memq_memf phi cl Hgphi Hglc).
      destruct (memf phi cl) eqn:Em.
      + apply LTLP.memf_In in Em. apply IH.
        * constructor; try assumption.
          -- intros x Hx. apply HT. right. exact Hx.
          -- intros f ps Hf E x Hx. specialize (Hcl f ps Hf E x Hx).
             apply in_app_or in Hcl. apply in_or_app. destruct Hcl as [H|[<-|H]]; auto.
          -- apply in_app_or in Hp. apply in_or_app. destruct Hp as [H|[<-|H]]; auto.
        * unfold mu in *. cbn [List.length] in Hmu. lia.
      + assert (HphiU : In phi U) by (apply HT; left; reflexivity).
        destruct (pushes_closed p Hn phi HphiU) as [ps [E Hps]]. rewrite E.
        apply IH.
        * constructor.
          -- apply Forall_app. split; [exact (pushes_gl phi ps Hgphi E) | exact HglT'].
          -- constructor; assumption.
          -- intros x Hx. apply in_app_or in Hx. destruct Hx as [Hx|Hx]; [apply Hps; exact Hx|].
             apply HT. right. exact Hx.
          -- intros x [<-|Hx]; [exact HphiU | apply Hc; exact Hx].
          -- intros f ps' [<-|Hf] E' x Hx.
             ++ rewrite E in E'. injection E' as <-. right. apply in_or_app. right. apply in_or_app. left. exact Hx.
             ++ specialize (Hcl f ps' Hf E' x Hx). apply in_app_or in Hcl.
                destruct Hcl as [H|[<-|H]].
                ** right. apply in_or_app. left. exact H.
                ** left. reflexivity.
                ** right. apply in_or_app. right. apply in_or_app. right. exact H.
          -- apply in_app_or in Hp. destruct Hp as [H|[<-|H]].
             ++ right. apply in_or_app. left. exact H.
             ++ left. reflexivity.
             ++ right. apply in_or_app. right. apply in_or_app. right. exact H.
        * unfold mu in *. unfold rest in *.
          assert (HphiL : In phi L) by (apply (proj2 (LTLP.dedupf_In phi U)); exact HphiU).
          pose proof (sum_remove wl_weight phi cl Em L (dedupf_NoDup U) HphiL) as Hs.
          assert (Hw : wl_weight phi = S (List.length ps)) by (unfold wl_weight; rewrite E; reflexivity).
          rewrite app_length. cbn [List.length] in Hmu. lia.
  Qed.

  Lemma closure_wl_ok : exists W, closure_wl feq (closure_fuel p) [p] [] = Ok W /\
    (forall f, In f W <-> In f U) /\ Forall gl W.
  Proof.
    destruct (wl_run (closure_fuel p) [p] []) as [W [E HW]].
    - constructor.
      + constructor; [exact Hg | constructor].
      + constructor.
      + intros x [<-|[]]. apply LTLP.self_in_closure. exact Hn.
      + intros x [].
      + intros f ps [].
      + left. reflexivity.
    - unfold mu, rest, closure_fuel. cbn [List.length].
      rewrite (filter_all_true _ L) by (intros x _; reflexivity).
      pose proof (sum_dedupf_le wl_weight U). lia.
    - exists W. split; [exact E|]. destruct HW as [_ Hglc _ Hc Hcl Hp]. split; [|exact Hglc].
      intros f. split; [apply Hc|].
      apply (closure_least W); [|exact Hn|].
      + intros f0 ps Hf0 E0 x Hx. specialize (Hcl f0 ps Hf0 E0 x Hx). rewrite app_nil_r in Hcl. exact Hcl.
      + rewrite app_nil_r in Hp. exact Hp.
  Qed.

  Lemma closure_q_ok : closure_q feq p = Ok (dedupf (closure p)) /\ Forall gl (dedupf (closure p)).
  Proof.
    destruct closure_wl_ok as [W [E [HW Hgl]]]. split.
    - unfold closure_q. rewrite E. cbn [rmap rbind]. f_equal.
      rewrite filter_all_true.
      + rewrite filter_all_false; [apply app_nil_r|].
        intros x Hx. apply in_rev in Hx. apply (proj1 (HW x)) in Hx. apply (proj2 (LTLP.memf_In x U)) in Hx. rewrite Hx. reflexivity.
      + intros x Hx. apply (proj1 (LTLP.dedupf_In x (closure p))) in Hx. apply (proj2 (LTLP.memf_In x W)). apply (proj2 (HW x)). exact Hx.
    - rewrite Forall_forall in *. intros x Hx. apply (proj1 (LTLP.dedupf_In x (closure p))) in Hx. apply Hgl. apply (proj2 (HW x)). exact Hx.
  Qed.
End WL.

Lemma forallb_map {A B} (f : A -> B) (q : B -> bool) l : forallb q (map f l) = forallb (fun x => q (f x)) l.
Proof. induction l as [|a l IH]; cbn; [reflexivity|]. rewrite IH. reflexivity. Qed.

Lemma restrict_okstd : forall f, okstd f = true -> okstd (restrict f) = true.
Proof.
  induction f using LTLP.form_ind'; intros Ho; cbn [restrict];
    autorewrite with okstd in *; split_andb; auto.
  - rewrite okstd_FOr in *. apply andb_true_iff in Ho. destruct Ho as [H1 H2].
    rewrite map_length, H1. cbn [andb]. rewrite forallb_map. rewrite forallb_forall in *.
    rewrite Forall_forall in H. intros x Hx. apply H; [exact Hx | apply H2; exact Hx].
  - rewrite okstd_FAnd in Ho. rewrite okstd_FOr. apply andb_true_iff in Ho. destruct Ho as [H1 H2].
    rewrite map_length, H1. cbn [andb]. rewrite forallb_map. rewrite forallb_forall in *.
    rewrite Forall_forall in H. intros x Hx. rewrite okstd_LNot. apply H; [exact Hx | apply H2; exact Hx].
  - rewrite IHf1, IHf2 by assumption. reflexivity.
  - rewrite IHf1, IHf2 by assumption. reflexivity.
  - rewrite IHf1, IHf2 by assumption. reflexivity.
Qed.

(* The LTL pipeline by printed form coincides with the structural one: same list. *)
Theorem ltl_print_sound : forall K g,
  ltl_path g = true -> ident_atoms g = true -> arity_ok g = true ->
  ltl_modelcheck_print K (FA g) = ltl_modelcheck K (FA g).
Proof.
  intros K g Hl Hi Ha. unfold ltl_modelcheck_print, ltl_modelcheck_q, ltl_modelcheck. rewrite Hl.
  set (p := restrict (LNot g)).
  assert (Hl' : ltl_path (LNot g) = true) by (rewrite RewriteP.LNot_ltl_path_eq; exact Hl).
  assert (Hn : LTLP.normalb p = true) by (apply LTLP.restrict_normal; exact Hl').
  assert (Hg : gl p).
  { split; [apply RewriteP.restrict_ltl_path; exact Hl'|].
    apply restrict_okstd. rewrite okstd_LNot. apply okstd_join; assumption. }
  destruct (closure_q_ok p Hn Hg) as [Ec Hgl].
  unfold checkE_path_q. rewrite Ec. cbn [rmap rbind]. rewrite (checkE_path_cl_eq K p Hgl Hg). reflexivity.
Qed.

(* ====================================================================================== *)
(** * Without the hypotheses the models differ (known finding KF-print-a)                 *)
(* ====================================================================================== *)
Local Open Scope string_scope.

(* CTL.modelcheck(Kripke(R=[(0,1),(1,0)], L={0:['p']}), Or(AtomicProposition('(p or q)'), Or('p','q')))
   returns set() instead of {0}: the atom named "(p or q)" and the disjunction share a memo entry *)
Definition K_memo : kripke := mkK [(0, [1]); (1, [0])] [] [(0, ["p"]); (1, [])].
Definition f_memo : form := FOr [FAtom "(p or q)"; FOr [FAtom "p"; FAtom "q"]].

Lemma memo_witness_values :
  ctl_modelcheck_memo K_memo f_memo = Ok [] /\ ctl_modelcheck K_memo f_memo = Ok [0].
Proof. split; vm_compute; reflexivity. Qed.

Theorem memo_refuted : exists K f, ctl_state f = true /\ ctl_modelcheck_memo K f <> ctl_modelcheck K f.
Proof.
  exists K_memo, f_memo. split; [reflexivity|].
  destruct memo_witness_values as [E1 E2]. rewrite E1, E2. discriminate.
Qed.

(* LTL.modelcheck(Kripke(R=[(0,0)], L={0:['p']}), A(And(X('p'), Not(AtomicProposition('X(p)')))))
   returns set() instead of {0} *)
Definition K_loop : kripke := mkK [(0, [0])] [] [(0, ["p"])].
Definition g_print : form := FAnd [FX (FAtom "p"); FNot (FAtom "X(p)")].

Lemma print_witness_values :
  ltl_modelcheck_print K_loop (FA g_print) = Ok [] /\ ltl_modelcheck K_loop (FA g_print) = Ok [0].
Proof. split; vm_compute; reflexivity. Qed.

Theorem ltl_print_refuted :
  exists K g, ltl_path g = true /\ ltl_modelcheck_print K (FA g) <> ltl_modelcheck K (FA g).
Proof.
  exists K_loop, g_print. split; [reflexivity|].
  destruct print_witness_values as [E1 E2]. rewrite E1, E2. discriminate.
Qed.

(* the asymmetry of Bool.__eq__ is observable as well: an atom named "false" that is stored
   first is hit by the later store under Bool(False) (its entry is overwritten with the
   empty set); when Bool(False) is stored first, the atom gets an entry of its own *)
Definition K_false : kripke := mkK [(0, [1]); (1, [0])] [] [(0, ["false"]); (1, [])].
Definition f_af : form := FOr [EX (FAtom "false"); FBool false; FAtom "false"].
Definition f_fa : form := FOr [FBool false; EX (FAtom "false"); FAtom "false"].
Lemma bool_eq_asymmetry_witness :
  (ctl_modelcheck_memo K_false f_af = Ok [1] /\ ctl_modelcheck K_false f_af = Ok [1; 0]) /\
  (ctl_modelcheck_memo K_false f_fa = Ok [1; 0] /\ ctl_modelcheck K_false f_fa = Ok [1; 0]).
Proof. repeat split; vm_compute; reflexivity. Qed.

Print Assumptions check_memo_sound.
Print Assumptions ltl_print_sound.
Print Assumptions memo_refuted.
Print Assumptions ltl_print_refuted.
