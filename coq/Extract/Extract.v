(* Extract.v — the single extraction of the executable models to OCaml.
   Directives: those of ExtrOcamlBasic (bool, option, unit, list, prod, sumbool, ...)
   and ExtrOcamlString (ascii -> char, string -> char list).  No Extract Constant of
   our own; nat stays the unary inductive type. *)
From PMC Require Import Model.Fair Model.Memo Model.BExp Model.Parse Model.KripkeOps.
From Coq Require Import ExtrOcamlBasic ExtrOcamlString.
Extraction "model.ml"
  mk_graph subgraph reversed clone reach_r add_node_r add_edge_r edges sources next_r
  compute_SCCs
  mk_kripke kclone substructure labels_r knext_r all_labels get_fair_states fair_states_ref
  label_fair_states kapply label_entry
  LNot restrict restrict_ltl restrict_ctl unfair_ctls unfair_ctl height
  pl_ok ctls_state ctl_state ctl_path ltl_path ltl_state arity_ok
  mk cast_to print eq_obj eq_obj_pybool hash_obj
  lex parse parse_string
  ctl_modelcheck ltl_modelcheck ctls_modelcheck_in
  ctl_modelcheck_fair ltl_modelcheck_fair ctls_modelcheck_fair
  ctl_modelcheck_memo ltl_modelcheck_print
  closure dedupf atoms tableau checkE_path fresh_name
  obdd_parse obdd_lambda obdd_apply obdd_neg obdd_restrict obdd_eq collect live_count
  no_dup_triples denote variables print_root pyparse reparse_root descendents lookup.
