(* driver.ml — line protocol around the extracted models (model.ml).
   One s-expression per input line, one s-expression per output line.
   This file only converts data; all behaviour comes from Model. *)
open Model

(* ---------- s-expressions ---------- *)
type sx = A of string | Q of string | L of sx list   (* atom, quoted string, list *)

let tokenize (s : string) : sx list =
  let n = String.length s in
  let rec go i (stack : sx list list) (cur : sx list) =
    if i >= n then (match stack with [] -> List.rev cur | _ -> failwith "unbalanced")
    else match s.[i] with
      | ' ' | '\t' | '\r' | '\n' -> go (i+1) stack cur
      | '(' -> go (i+1) (cur :: stack) []
      | ')' -> (match stack with
                | top :: rest -> go (i+1) rest (L (List.rev cur) :: top)
                | [] -> failwith "unbalanced )")
      | '"' ->
        let b = Buffer.create 16 in
        let rec str j =
          if j >= n then failwith "unterminated string"
          else match s.[j] with
            | '"' -> j+1
            | '\\' -> (match s.[j+1] with
                | 'n' -> Buffer.add_char b '\n'; str (j+2)
                | 'x' -> Buffer.add_char b (Char.chr (int_of_string ("0x" ^ String.sub s (j+2) 2))); str (j+4)
                | c -> Buffer.add_char b c; str (j+2))
            | c -> Buffer.add_char b c; str (j+1) in
        let j = str (i+1) in
        go j stack (Q (Buffer.contents b) :: cur)
      | _ ->
        let j = ref i in
        while !j < n && (match s.[!j] with ' ' | '(' | ')' | '\t' | '\n' | '\r' | '"' -> false | _ -> true) do incr j done;
        go !j stack (A (String.sub s i (!j - i)) :: cur)
  in go 0 [] []

let rec show (x : sx) : string = match x with
  | A a -> a
  | Q q ->
    let b = Buffer.create 16 in
    Buffer.add_char b '"';
    String.iter (fun c -> match c with
        | '"' -> Buffer.add_string b "\\\""
        | '\\' -> Buffer.add_string b "\\\\"
        | '\n' -> Buffer.add_string b "\\n"
        | c when Char.code c < 32 || Char.code c > 126 -> Buffer.add_string b (Printf.sprintf "\\x%02x" (Char.code c))
        | c -> Buffer.add_char b c) q;
    Buffer.add_char b '"'; Buffer.contents b
  | L l -> "(" ^ String.concat " " (List.map show l) ^ ")"

(* ---------- conversions ---------- *)
let rec nat_of_int n = if n <= 0 then O else S (nat_of_int (n-1))
let rec int_of_nat = function O -> 0 | S n -> 1 + int_of_nat n
let cl_of_string s = List.init (String.length s) (String.get s)
let string_of_cl l = String.init (List.length l) (List.nth l)

let bad what x = failwith (what ^ ": " ^ show x)
let to_nat = function A a -> nat_of_int (int_of_string a) | x -> bad "nat" x
let to_nats = function L l -> List.map to_nat l | x -> bad "nats" x
let to_str = function Q q -> cl_of_string q | A a -> cl_of_string a | x -> bad "str" x
let to_bool = function A "1" | A "true" -> true | A "0" | A "false" -> false | x -> bad "bool" x
let to_pair = function L [a; b] -> (to_nat a, to_nat b) | x -> bad "pair" x
let to_list f = function L l -> List.map f l | x -> bad "list" x

let of_nat n = A (string_of_int (int_of_nat n))
let of_nats l = L (List.map of_nat l)
let of_str s = Q (string_of_cl s)
let of_bool b = A (if b then "1" else "0")
let of_result f = function
  | Ok a -> L [A "ok"; f a]
  | TypeErr -> L [A "err"; A "TypeError"]
  | RuntimeErr -> L [A "err"; A "RuntimeError"]
  | SyntaxErr -> L [A "err"; A "SyntaxError"]
  | ValueErr -> L [A "err"; A "ValueError"]
  | ParseErr -> L [A "err"; A "ParserError"]
  | OutOfFuel -> L [A "err"; A "OutOfFuel"]
let of_option f = function Some a -> L [A "some"; f a] | None -> L [A "none"]

let to_graph x : graph = to_list (function L [k; ds] -> (to_nat k, to_nats ds) | y -> bad "graph entry" y) x
let of_graph (g : graph) = L (List.map (fun (k, ds) -> L [of_nat k; of_nats ds]) g)
let to_lab x = to_list (function L [k; ls] -> (to_nat k, to_list to_str ls) | y -> bad "lab entry" y) x
let of_lab l = L (List.map (fun (k, ls) -> L [of_nat k; L (List.map of_str ls)]) l)
let to_kripke = function
  | L [g; i; l] -> { kg = to_graph g; kinit = to_nats i; klab = to_lab l }
  | x -> bad "kripke" x
let of_kripke k = L [of_graph k.kg; of_nats k.kinit; of_lab k.klab]

let rec to_form = function
  | L [A "t"] -> FBool true | L [A "f"] -> FBool false
  | L [A "a"; n] -> FAtom (to_str n)
  | L [A "not"; x] -> FNot (to_form x)
  | L (A "or" :: xs) -> FOr (List.map to_form xs)
  | L (A "and" :: xs) -> FAnd (List.map to_form xs)
  | L [A "imp"; x; y] -> FImp (to_form x, to_form y)
  | L [A "X"; x] -> FX (to_form x) | L [A "F"; x] -> FF (to_form x) | L [A "G"; x] -> FG (to_form x)
  | L [A "U"; x; y] -> FU (to_form x, to_form y) | L [A "R"; x; y] -> FR (to_form x, to_form y)
  | L [A "A"; x] -> FA (to_form x) | L [A "E"; x] -> FE (to_form x)
  | x -> bad "form" x
let rec of_form = function
  | FBool true -> L [A "t"] | FBool false -> L [A "f"]
  | FAtom a -> L [A "a"; of_str a]
  | FNot x -> L [A "not"; of_form x]
  | FOr xs -> L (A "or" :: List.map of_form xs)
  | FAnd xs -> L (A "and" :: List.map of_form xs)
  | FImp (x, y) -> L [A "imp"; of_form x; of_form y]
  | FX x -> L [A "X"; of_form x] | FF x -> L [A "F"; of_form x] | FG x -> L [A "G"; of_form x]
  | FU (x, y) -> L [A "U"; of_form x; of_form y] | FR (x, y) -> L [A "R"; of_form x; of_form y]
  | FA x -> L [A "A"; of_form x] | FE x -> L [A "E"; of_form x]

let to_lang = function A "PL" -> PL | A "CTLS" -> CTLS | A "CTL" -> CTL | A "LTL" -> LTL | x -> bad "lang" x
let of_lang = function PL -> A "PL" | CTLS -> A "CTLS" | CTL -> A "CTL" | LTL -> A "LTL"
let of_ptok = function
  | PWord w -> L [A "w"; of_str w] | PQuoted s -> L [A "q"; of_str s]
  | PLp -> A "lp" | PRp -> A "rp"
  | PSym SNot -> A "~" | PSym SOr -> A "|" | PSym SAnd -> A "&" | PSym SImp -> A "-->"
let to_obj = function L [l; f] -> (to_lang l, to_form f) | x -> bad "obj" x
let of_obj (l, f) = L [of_lang l; of_form f]
let to_op = function
  | L [A "t"] -> OBool true | L [A "f"] -> OBool false | L [A "a"; n] -> OAtom (to_str n)
  | A "not" -> ONot | A "or" -> OOr | A "and" -> OAnd | A "imp" -> OImp
  | A "X" -> OX | A "F" -> OF | A "G" -> OG | A "U" -> OU | A "R" -> OR | A "A" -> OA | A "E" -> OE
  | x -> bad "op" x

let rec to_bexp = function
  | L [A "v"; n] -> BVar (to_nat n)
  | L [A "c"; b] -> BConst (to_bool b)
  | L [A "not"; e] -> BNot (to_bexp e)
  | L [A "and"; a; b] -> BAnd (to_bexp a, to_bexp b)
  | L [A "or"; a; b] -> BOr (to_bexp a, to_bexp b)
  | L (A "andl" :: es) -> BAndL (List.map to_bexp es)
  | L (A "orl" :: es) -> BOrL (List.map to_bexp es)
  | L [A "bad"] -> BBad
  | x -> bad "bexp" x
let rec of_bexp = function
  | BVar v -> L [A "v"; of_nat v] | BConst b -> L [A "c"; of_bool b]
  | BNot e -> L [A "not"; of_bexp e]
  | BAnd (a, b) -> L [A "and"; of_bexp a; of_bexp b] | BOr (a, b) -> L [A "or"; of_bexp a; of_bexp b]
  | BAndL es -> L (A "andl" :: List.map of_bexp es) | BOrL es -> L (A "orl" :: List.map of_bexp es)
  | BBad -> L [A "bad"]
let of_tok = function
  | TVar v -> L [A "v"; of_nat v] | TNot -> A "~" | TAnd -> A "&" | TOr -> A "|"
  | TLp -> A "lp" | TRp -> A "rp" | TOne -> A "1" | TZero -> A "0"

(* ---------- BDD histories ---------- *)
let err_name : 'a. 'a result -> string = function
  | Ok _ -> "ok" | TypeErr -> "TypeError" | RuntimeErr -> "RuntimeError" | SyntaxErr -> "SyntaxError"
  | ValueErr -> "ValueError" | ParseErr -> "ParserError" | OutOfFuel -> "OutOfFuel"

let run_bdd (nv : int) (psize : int) (ops : sx list) : sx =
  let store = ref [] in
  let pool : obdd option array = Array.make psize None in
  let roots () = Array.fold_left (fun acc o -> match o with Some (r, _) -> r :: acc | None -> acc) [] pool in
  let get i = match pool.(i) with Some o -> o | None -> failwith "empty pool slot" in
  let set k (r : (store * obdd) result) : string =
    (match r with Ok (s, o) -> store := s; pool.(k) <- Some o | _ -> ()); err_name r in
  let envs = List.init (1 lsl nv) (fun m -> (fun v -> (m lsr (int_of_nat v)) land 1 = 1)) in
  let observe status =
    let tt = Array.to_list (Array.map (function
        | None -> A "-"
        | Some (r, _) -> A (String.concat "" (List.map (fun e -> if denote !store r e then "1" else "0") envs))) pool) in
    let eqm = List.concat (List.init psize (fun i -> List.init psize (fun j ->
        match pool.(i), pool.(j) with
        | Some a, Some b -> A (if obdd_eq a b then "1" else "0")
        | _ -> A "-"))) in
    let same = List.concat (List.init psize (fun i -> List.init psize (fun j ->
        match pool.(i), pool.(j) with
        | Some (a, _), Some (b, _) -> A (if a = b then "1" else "0")
        | _ -> A "-"))) in
    let vars = Array.to_list (Array.map (function
        | None -> A "-"
        | Some (r, _) -> of_nats (List.sort compare (variables !store r))) pool) in
    L [A status; L tt; L eqm; L same; L vars;
       of_nat (live_count (collect !store (roots ())));
       of_bool (no_dup_triples !store)] in
  let step (o : sx) : sx =
    let status = match o with
      | L [A "parse"; k; ord; e] -> set (int_of_nat (to_nat k)) (obdd_parse !store (to_bexp e) (to_nats ord))
      | L [A "lambda"; k; args; e] -> set (int_of_nat (to_nat k)) (obdd_lambda !store (to_nats args) (to_bexp e))
      | L [A ("and" | "or" | "xor" as nm); i; j; k] ->
        let op = (match nm with "and" -> (fun a b -> a && b) | "or" -> (fun a b -> a || b) | _ -> (fun a b -> a <> b)) in
        set (int_of_nat (to_nat k)) (obdd_apply op !store (get (int_of_nat (to_nat i))) (get (int_of_nat (to_nat j))))
      | L [A "not"; i; k] -> set (int_of_nat (to_nat k)) (obdd_neg !store (get (int_of_nat (to_nat i))))
      | L [A "restrict"; i; v; b; k] ->
        set (int_of_nat (to_nat k)) (obdd_restrict !store (get (int_of_nat (to_nat i))) (to_nat v) (to_bool b))
      | L [A "reparse"; i; k] -> set (int_of_nat (to_nat k)) (reparse_root !store (get (int_of_nat (to_nat i))))
      | L [A "drop"; i] -> pool.(int_of_nat (to_nat i)) <- None; "ok"
      | L [A "gc"] -> store := collect !store (roots ()); "ok"
      | x -> bad "bdd op" x in
    observe status in
  L (List.map step ops)

(* ---------- commands ---------- *)
let exec (c : sx) : sx = match c with
  | L [A "mkg"; v; e] -> of_graph (mk_graph (to_nats v) (to_list to_pair e))
  | L [A "sub"; g; x] -> of_graph (subgraph (to_graph g) (to_nats x))
  | L [A "rev"; g] -> of_graph (reversed (to_graph g))
  | L [A "clone"; g] -> of_graph (clone (to_graph g))
  | L [A "reach"; g; x] -> of_result of_nats (reach_r (to_graph g) (to_nats x))
  | L [A "scc"; g] -> L (List.map of_nats (compute_SCCs (to_graph g)))
  | L [A "addnode"; g; v] -> of_result of_graph (add_node_r (to_graph g) (to_nat v))
  | L [A "addedge"; g; s; d] -> of_result of_graph (add_edge_r (to_graph g) (to_nat s) (to_nat d))
  | L [A "kripke"; s; s0; r; l] -> of_result of_kripke (mk_kripke (to_nats s) (to_nats s0) (to_list to_pair r) (to_lab l))
  | L [A "kclone"; k] -> of_result of_kripke (kclone (to_kripke k))
  | L [A "substr"; k; v] -> of_result of_kripke (substructure (to_kripke k) (to_nats v))
  | L [A "kaddnode"; k; v] -> of_result of_kripke (kapply (to_kripke k) (OpNode (to_nat v)))
  | L [A "kaddedge"; k; s; d] -> of_result of_kripke (kapply (to_kripke k) (OpEdge (to_nat s, to_nat d)))
  | L [A "labelentry"; k; s] -> of_result (fun l -> L (List.map of_str l)) (label_entry (to_kripke k) (to_nat s))
  | L [A "labels"; k; s] -> of_result (fun l -> L (List.map of_str l)) (labels_r (to_kripke k) (to_nat s))
  | L [A "knext"; k; s] -> of_result of_nats (knext_r (to_kripke k) (to_nat s))
  | L [A "fair"; k; f] -> of_nats (get_fair_states (to_kripke k) (to_list to_nats f))
  | L [A "fairref"; k; f] -> of_nats (fair_states_ref (to_kripke k) (to_list to_nats f))
  | L [A "labelfair"; k; f] -> let (k', a) = label_fair_states (to_kripke k) (to_list to_nats f) in L [of_kripke k'; of_str a]
  | L [A "lnot"; f] -> of_form (lNot (to_form f))
  | L [A "restrict"; f] -> of_form (restrict (to_form f))
  | L [A "restrictltl"; f] -> of_form (restrict_ltl (to_form f))
  | L [A "restrictctl"; f] -> of_option of_form (restrict_ctl (to_form f))
  | L [A "unfairctls"; a; f] -> of_form (unfair_ctls (to_str a) (to_form f))
  | L [A "unfairctl"; a; f] -> of_option of_form (unfair_ctl (to_str a) (to_form f))
  | L [A "member"; f] -> let f = to_form f in
    L (List.map of_bool [pl_ok f; ctls_state f; ctl_state f; ctl_path f; ltl_path f; ltl_state f; arity_ok f])
  | L (A "mk" :: l :: o :: args) -> of_result of_obj (mk (to_lang l) (to_op o) (List.map to_obj args))
  | L [A "cast"; l; o] -> of_result of_obj (cast_to (to_lang l) (to_obj o))
  | L [A "lattice"] ->
    (* the model's class-lattice tables, for the introspective comparison with the live classes *)
    let langs = [PL; CTLS; CTL; LTL] in
    let ops = [OBool true; OAtom []; ONot; OOr; OAnd; OImp; OX; OF; OG; OU; OR; OA; OE] in
    let opname = function
      | OBool _ -> "Bool" | OAtom _ -> "AtomicProposition" | ONot -> "Not" | OOr -> "Or" | OAnd -> "And"
      | OImp -> "Imply" | OX -> "X" | OF -> "F" | OG -> "G" | OU -> "U" | OR -> "R" | OA -> "A" | OE -> "E" in
    let tyname = function TFormula -> "Formula" | TPath -> "PathFormula" | TState -> "StateFormula" in
    L (List.concat_map (fun l -> List.map (fun o ->
        L [of_lang l; A (opname o); of_bool (in_alphabet l o);
           of_bool (isinst l o TPath); of_bool (isinst l o TState); A (tyname (required l o))]) ops) langs)
  | L [A "print"; l; f] -> of_str (print (to_lang l) (to_form f))
  | L [A "parse"; l; s] -> of_result of_form (parse_string (to_lang l) (to_str s))
  | L [A "lex"; s] -> of_option (fun ts -> L (List.map of_ptok ts)) (lex (to_str s))
  | L [A "eq"; a; b] -> of_bool (eq_obj (to_obj a) (to_obj b))
  | L [A "eqbool"; a; b] -> of_bool (eq_obj_pybool (to_obj a) (to_bool b))
  | L [A "ctl"; k; f] -> of_result of_nats (ctl_modelcheck (to_kripke k) (to_form f))
  | L [A "ltl"; k; f] -> of_result of_nats (ltl_modelcheck (to_kripke k) (to_form f))
  | L [A "ctlmemo"; k; f] -> of_result of_nats (ctl_modelcheck_memo (to_kripke k) (to_form f))
  | L [A "ltlprint"; k; f] -> of_result of_nats (ltl_modelcheck_print (to_kripke k) (to_form f))
  | L [A "ctls"; l; k; f] -> of_result of_nats (ctls_modelcheck_in (to_lang l) (to_kripke k) (to_form f))
  | L [A "ctlf"; k; f; fs] -> of_result of_nats (ctl_modelcheck_fair (to_kripke k) (to_form f) (to_list to_nats fs))
  | L [A "ltlf"; k; f; fs] -> of_result of_nats (ltl_modelcheck_fair (to_kripke k) (to_form f) (to_list to_nats fs))
  | L [A "ctlsf"; k; f; fs] -> of_result of_nats (ctls_modelcheck_fair (to_kripke k) (to_form f) (to_list to_nats fs))
  | L [A "closure"; f] -> L (List.map of_form (dedupf (closure (to_form f))))
  | L [A "atoms"; k; f] ->
    let cl = dedupf (closure (to_form f)) in
    L (List.map (fun (s, fs) -> L [of_nat s; L (List.map of_form fs)]) (atoms (to_kripke k) cl))
  | L [A "fresh"; l; k; f] -> of_str (fresh_name (to_lang l) (to_kripke k) (to_form f))
  | L (A "bdd" :: nv :: ps :: ops) -> run_bdd (int_of_nat (to_nat nv)) (int_of_nat (to_nat ps)) ops
  | L [A "printbdd"; ord; e] ->
    (match obdd_parse [] (to_bexp e) (to_nats ord) with
     | Ok (s, (r, _)) -> L [A "ok"; L (List.map of_tok (print_root s r)); of_option of_bexp (pyparse (print_root s r))]
     | r -> L [A "err"; A (err_name r)])
  | x -> bad "command" x

let () =
  try
    while true do
      let line = input_line stdin in
      let out =
        try (match tokenize line with
            | [c] -> show (exec c)
            | _ -> "(fail \"expected one s-expression\")")
        with Failure m -> show (L [A "fail"; Q m])
           | Not_found -> "(fail \"Not_found\")"
           | Invalid_argument m -> show (L [A "fail"; Q m])
           | Stack_overflow -> "(fail \"Stack_overflow\")" in
      print_string out; print_char '\n'; flush stdout
    done
  with End_of_file -> ()
