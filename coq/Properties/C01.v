(* C01 — CTL model checking returns exactly the satisfying states
   (CTL/model_checking.py; model Model/CTLmc.v).  Theorems only; proofs in Proofs/CTLP.v
   (per-operator lemmas checkEX/EU/EG_spec and the induction on fuel), instantiated in
   Proofs/Assemble.v with the graph, SCC, generalised-Buechi and rewriting lemmas. *)
From PMC Require Import Spec.Lemmas Model.Memo Proofs.Assemble.
From PMC Require Proofs.PrintP Proofs.MemoP.

(* For EVERY well-formed total Kripke structure and EVERY CTL state formula the model returns
   a duplicate-free list that contains exactly the states satisfying f under the path
   semantics of logics.rst ([holds K s f] = some/every path from s satisfies the state
   formula f): no satisfying state is missing, no other state is included, and no internal
   error (in particular the fuel never runs out). *)
Theorem C01_exact : forall K f, wf_kripke K -> ctl_state f = true ->
  exists S, ctl_modelcheck K f = Ok S /\ NoDup S /\
            forall s, In s S <-> (In s (states K) /\ holds K s f).
Proof. exact ctl_exact. Qed.
Print Assumptions C01_exact.

(* anything that is not a CTL state formula is rejected with TypeError *)
Theorem C01_guard : forall K f, ctl_state f = false -> ctl_modelcheck K f = TypeErr.
Proof. intros K f H. unfold ctl_modelcheck. rewrite H. reflexivity. Qed.
Print Assumptions C01_guard.

(* The CODE keeps a per-call memo table keyed by the PRINTED form of the formula object
   (Formula.__eq__/__hash__).  Model/Memo.v models exactly that ([ctl_modelcheck_memo]: an
   insertion-ordered dict with CPython's key comparison, the Bool special case, the fallback
   branch storing under both keys) and is tied to the code on exotic atom names by the
   correspondence check.  Over identifier atoms the memo is invisible: same result list. *)
Theorem C01_memo : forall K f, ctl_state f = true -> PMC.Proofs.PrintP.ident_atoms f = true -> arity_ok f = true ->
  ctl_modelcheck_memo K f = ctl_modelcheck K f.
Proof. exact PMC.Proofs.MemoP.check_memo_sound. Qed.
Print Assumptions C01_memo.

(* known finding KF-print-a: with an atom NAMED like a printed subformula the memoised checker
   (the code) answers wrongly *)
Theorem C01_memo_refuted : exists K f, ctl_state f = true /\ ctl_modelcheck_memo K f <> ctl_modelcheck K f.
Proof. exact PMC.Proofs.MemoP.memo_refuted. Qed.
Print Assumptions C01_memo_refuted.

(* non-vacuity: a well-formed total structure, a formula with nested temporal operators,
   and an answer that is neither empty nor everything *)
From Coq Require Import String.
Example C01_example :
  let K := mkK [(0, [1]); (1, [1; 2]); (2, [0])] [] [(0, ["p"]); (1, ["p"; "q"]); (2, [])]%string in
  ctl_modelcheck K (FA (FG (FImp (FAtom "q") (FE (FX (FNot (FAtom "p")))))))%string = Ok [0; 1; 2] /\
  ctl_modelcheck K (FE (FU (FAtom "p") (FA (FX (FAtom "p")))))%string = Ok [0; 2; 1] /\
  ctl_modelcheck K (FE (FG (FAtom "p")))%string = Ok [1; 0] /\
  ctl_modelcheck K (FA (FF (FNot (FAtom "p"))))%string = Ok [2].
Proof. vm_compute. repeat split. Qed.
