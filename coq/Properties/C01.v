(* C01 *) From PMC Require Import Spec.Lemmas.
