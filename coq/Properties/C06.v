(* C06 — answers are independent of presentation order, naming and hash seed.
   The model-level content: the exactness theorems characterise every answer by the satisfaction
   relation, which does not mention any order; so the answer is a function of the state SET, the
   edge RELATION and the labelling RELATION, it commutes with injective renamings of states and of
   atoms, and it is unaffected by states unreachable from the queried ones.  Theorems only; proofs
   in Proofs/CorollariesP.v, Proofs/Corollaries2P.v (CTL-star versions), Proofs/SccP.v, GraphP.v.
   PARTIAL by nature: PYTHONHASHSEED and Python's set iteration order are runtime facts that no
   Gallina model exhibits; they are covered by the correspondence check (fresh interpreters under
   several hash seeds, string/tuple state names, permuted argument orders; the model is run on
   every presentation read back from the live objects). *)
From PMC Require Import Spec.Lemmas Proofs.KripkeP Proofs.CorollariesP Proofs.Corollaries2P.
From PMC Require Proofs.SccP Proofs.GraphP.
Notation ident_atoms := PMC.Proofs.CTLSP.ident_atoms.

(* ---- reordering the state / transition / label collections ---- *)
Theorem C06_presentation_ctl : forall K K' f, wf_kripke K -> wf_kripke K' ->
  same_set (states K) (states K') -> (forall x y, edge (kg K) x y <-> edge (kg K') x y) ->
  (forall s a, labelled K s a <-> labelled K' s a) -> ctl_state f = true ->
  exists S S', ctl_modelcheck K f = Ok S /\ ctl_modelcheck K' f = Ok S' /\ same_set S S'.
Proof. exact presentation_invariance_ctl. Qed.
Print Assumptions C06_presentation_ctl.

Theorem C06_presentation_ltl : forall K K' g, wf_kripke K -> wf_kripke K' ->
  same_set (states K) (states K') -> (forall x y, edge (kg K) x y <-> edge (kg K') x y) ->
  (forall s a, labelled K s a <-> labelled K' s a) -> ltl_path g = true ->
  exists S S', ltl_modelcheck K (FA g) = Ok S /\ ltl_modelcheck K' (FA g) = Ok S' /\ same_set S S'.
Proof. exact presentation_invariance_ltl. Qed.
Print Assumptions C06_presentation_ltl.

Theorem C06_presentation_ctls : forall K K' f, wf_K K -> wf_K K' ->
  same_set (states K) (states K') -> (forall x y, edge (kg K) x y <-> edge (kg K') x y) ->
  (forall s a, labelled K s a <-> labelled K' s a) ->
  ctls_state f = true -> ident_atoms f = true -> arity_ok f = true ->
  same_res (ctls_modelcheck K f) (ctls_modelcheck K' f).
Proof. exact presentation_invariance_ctls. Qed.
Print Assumptions C06_presentation_ctls.

(* ---- renaming states by any injection rho: the answer is the image ---- *)
Theorem C06_rename_states_ctl : forall rho, injective rho -> forall K f, wf_kripke K -> ctl_state f = true ->
  exists S S', ctl_modelcheck K f = Ok S /\ ctl_modelcheck (rename_K rho K) f = Ok S' /\
    forall s', In s' S' <-> exists s, s' = rho s /\ In s S.
Proof. exact rename_states_ctl. Qed.
Print Assumptions C06_rename_states_ctl.

Theorem C06_rename_states_ltl : forall rho, injective rho -> forall K g, wf_kripke K -> ltl_path g = true ->
  exists S S', ltl_modelcheck K (FA g) = Ok S /\ ltl_modelcheck (rename_K rho K) (FA g) = Ok S' /\
    forall s', In s' S' <-> exists s, s' = rho s /\ In s S.
Proof. exact rename_states_ltl. Qed.
Print Assumptions C06_rename_states_ltl.

Theorem C06_rename_states_ctls : forall rho K f, injective rho -> wf_K K ->
  ctls_state f = true -> ident_atoms f = true -> arity_ok f = true ->
  exists S S', ctls_modelcheck K f = Ok S /\ ctls_modelcheck (rename_K rho K) f = Ok S' /\
    forall s', In s' S' <-> exists s, s' = rho s /\ In s S.
Proof. exact rename_states_ctls. Qed.
Print Assumptions C06_rename_states_ctls.

(* ---- consistently renaming atomic propositions ---- *)
Theorem C06_rename_atoms_ctl : forall sigma K f, wf_kripke K -> ctl_state f = true ->
  inj_on sigma (rel_atoms K f) ->
  exists S S', ctl_modelcheck K f = Ok S /\
    ctl_modelcheck (relabel sigma K) (map_atoms sigma f) = Ok S' /\ same_set S S'.
Proof. exact rename_atoms_ctl. Qed.
Print Assumptions C06_rename_atoms_ctl.

Theorem C06_rename_atoms_ltl : forall sigma K g, wf_kripke K -> ltl_path g = true ->
  inj_on sigma (rel_atoms K g) ->
  exists S S', ltl_modelcheck K (FA g) = Ok S /\
    ltl_modelcheck (relabel sigma K) (FA (map_atoms sigma g)) = Ok S' /\ same_set S S'.
Proof. exact rename_atoms_ltl. Qed.
Print Assumptions C06_rename_atoms_ltl.

Theorem C06_rename_atoms_ctls : forall sigma K f, wf_K K -> ctls_state f = true -> ident_atoms f = true ->
  arity_ok f = true -> ident_atoms (map_atoms sigma f) = true -> inj_on sigma (rel_atoms K f) ->
  same_res (ctls_modelcheck K f) (ctls_modelcheck (relabel sigma K) (map_atoms sigma f)).
Proof. exact rename_atoms_ctls. Qed.
Print Assumptions C06_rename_atoms_ctls.

(* ---- adding states unreachable from the queried ones ---- *)
Theorem C06_unreachable : forall K K', wf_kripke K -> wf_kripke K' -> incl (states K) (states K') ->
  (forall x y, In x (states K) -> In y (states K) -> edge (kg K) x y <-> edge (kg K') x y) ->
  (forall x y, In x (states K) -> edge (kg K') x y -> In y (states K)) ->
  (forall s a, In s (states K) -> labelled K s a <-> labelled K' s a) ->
  (forall f, ctl_state f = true -> exists S S', ctl_modelcheck K f = Ok S /\ ctl_modelcheck K' f = Ok S' /\
       forall s, In s S <-> In s (states K) /\ In s S') /\
  (forall g, ltl_path g = true -> exists S S', ltl_modelcheck K (FA g) = Ok S /\ ltl_modelcheck K' (FA g) = Ok S' /\
       forall s, In s S <-> In s (states K) /\ In s S').
Proof.
  intros K K' H1 H2 H3 H4 H5 H6.
  destruct (unreachable_extension K K' H1 H2 H3 H4 H5 H6) as (_ & _ & Hc & Hl). split; assumption.
Qed.
Print Assumptions C06_unreachable.

(* ---- graph level: SCCs and reachable sets of ANY presentation of a graph are determined by
   the graph (as sets of sets / as sets) ---- *)
Theorem C06_scc_presentation : forall g, wf_graph g -> scc_spec g (compute_SCCs g).
Proof. exact PMC.Proofs.SccP.scc_correct. Qed.
Print Assumptions C06_scc_presentation.

Theorem C06_reach_presentation : forall g X, wf_graph g -> incl X (nodes g) ->
  NoDup (reach g X) /\ forall y, In y (reach g X) <-> exists x, In x X /\ reaches g x y.
Proof. exact PMC.Proofs.GraphP.reach_exact. Qed.
Print Assumptions C06_reach_presentation.

(* ---- what FAILS with fairness constraints (known finding KF-fair-capture): the fresh label
   'fair' avoids the labels of K but not the atoms of the formula, so consistently renaming an
   atom (here p, which labels no state) to "fair" changes the answer of the fair LTL checker —
   in the faithful model exactly as in the code ---- *)
From Coq Require Import String.
Theorem C06_fair_capture_refuted :
  exists K F g sigma,
    relabel sigma K = K /\ inj_on sigma (rel_atoms K g) /\ ltl_path g = true /\
    ltl_modelcheck_fair K (FA g) F = Ok [0; 1; 2] /\
    ltl_modelcheck_fair (relabel sigma K) (FA (map_atoms sigma g)) F = Ok [1].
Proof.
  exists (mkK [(0, [0; 2]); (1, [1]); (2, [0; 1; 2])] [] [(0, []); (1, ["q"%string]); (2, ["q"%string])]),
         [[0; 1; 2]],
         (FImp (FR (FAtom "q"%string) (FAtom "p"%string)) (FF (FBool false))),
         (fun a => if String.eqb a "p"%string then "fair"%string else a).
  split; [vm_compute; reflexivity|]. split.
  - intros a b Ha Hb E.
    assert (Hab : forall x, rel_atoms (mkK [(0, [0; 2]); (1, [1]); (2, [0; 1; 2])] [] [(0, []); (1, ["q"%string]); (2, ["q"%string])])
                     (FImp (FR (FAtom "q"%string) (FAtom "p"%string)) (FF (FBool false))) x -> x = "q"%string \/ x = "p"%string).
    { intros x [Hx|[s Hs]].
      - simpl in Hx. destruct Hx as [Hx|[Hx|[]]]; auto.
      - unfold labelled, labels_of in Hs. simpl in Hs.
        destruct s as [|[|[|s]]]; simpl in Hs; try contradiction; destruct Hs as [Hs|[]]; auto. }
    destruct (Hab a Ha) as [-> | ->]; destruct (Hab b Hb) as [-> | ->]; vm_compute in E; congruence.
  - split; [reflexivity|]. split; vm_compute; reflexivity.
Qed.
Print Assumptions C06_fair_capture_refuted.
