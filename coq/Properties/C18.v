(* C18 — expression and lambda notation build the same OBDD; printing round-trips
   (BDD/OBDD.py parse_binary_expr / BinaryParser after fixes F5, F7; BDD/BDD.py
   BDDNonTerminalNode.__str__ after fix F6).  Theorems only; proofs in Proofs/BddHistP.v
   (expression building) and Proofs/BddPrintP.v (printer / parser round trip), axiom-free.
   Python's ast module is trusted to turn text into the AST shapes of [bexp] ([BAnd]/[BOr] =
   & and |, [BAndL]/[BOrL] = the keywords and/or with their operand lists, [BNot] = ~ or not,
   [BBad] = any other syntax); the printed text is modelled down to the token list and
   re-parsed by [pyparse], a precedence parser for Python's | & ~ grammar. *)
From PMC Require Import Spec.Lemmas Proofs.BddP Proofs.BddHistP Proofs.Assemble.
From PMC Require Proofs.BddPrintP.

(* OBDD('lambda v1,...,vn: e') is OBDD(e, [v1,...,vn]) *)
Theorem C18_lambda : forall s args e, obdd_lambda s args e = obdd_parse s e args.
Proof. exact lambda_is_parse. Qed.
Print Assumptions C18_lambda.

(* building an expression whose variables are all in the ordering and that uses only Boolean
   syntax succeeds and yields a reduced ordered diagram of exactly the denoted function *)
Theorem C18_build : forall s e O, wf_store s -> nodup_vars O = true ->
  (forall v, In v (bvars e) -> in_ord O v = true) -> no_bad e = true ->
  exists s' n, obdd_parse s e O = Ok (s', (n, O)) /\ wf_store s' /\ extends s s' /\
    live s' n = true /\ ordered O s' n /\ (forall env, denote s' n env = beval e env).
Proof. exact obdd_parse_spec. Qed.
Print Assumptions C18_build.

(* and / or / not are synonyms of & | ~ : same function, hence (canonicity) the same node *)
Theorem C18_synonyms : forall O s a b s1 n1 s2 n2, wf_store s ->
  bbuild O s (BAndL [a; b]) = Ok (s1, n1) -> bbuild O s1 (BAnd a b) = Ok (s2, n2) -> n1 = n2.
Proof. exact synonyms_same_node. Qed.
Print Assumptions C18_synonyms.

Theorem C18_same_function_same_node : forall O s e1 e2 s1 n1 s2 n2, wf_store s ->
  bbuild O s e1 = Ok (s1, n1) -> bbuild O s1 e2 = Ok (s2, n2) ->
  (forall env, beval e1 env = beval e2 env) -> n1 = n2.
Proof. exact build_same_function_same_node. Qed.
Print Assumptions C18_same_function_same_node.

(* a variable missing from the ordering / argument list: RuntimeError;
   non-Boolean syntax: SyntaxError; a repeated variable in the ordering: RuntimeError *)
Theorem C18_missing_variable : forall O s e, wf_store s -> no_bad e = true ->
  (exists v, In v (bvars e) /\ in_ord O v = false) -> bbuild O s e = RuntimeErr.
Proof. exact bbuild_runtime_err. Qed.
Print Assumptions C18_missing_variable.

Theorem C18_bad_syntax : forall O s e, wf_store s ->
  (forall v, In v (bvars e) -> in_ord O v = true) -> no_bad e = false -> bbuild O s e = SyntaxErr.
Proof. exact bbuild_syntax_err. Qed.
Print Assumptions C18_bad_syntax.

Theorem C18_never_ok_when_ill_formed : forall O s e, wf_store s ->
  (no_bad e = false \/ exists v, In v (bvars e) /\ in_ord O v = false) ->
  bbuild O s e = RuntimeErr \/ bbuild O s e = SyntaxErr.
Proof. exact bbuild_mixed_err. Qed.
Print Assumptions C18_never_ok_when_ill_formed.

(* the printed form of a node parses (with Python's precedences) to an expression of exactly
   the node's function, over the node's own variables *)
Theorem C18_print_parse : forall s n, wf_store s -> live s n = true ->
  exists e, pyparse (print_root s n) = Some e /\
    (forall env, beval e env = denote s n env) /\
    (forall v, In v (PMC.Proofs.BddPrintP.bvars e) ->
       exists m, reach s n m /\ is_terminal m = false /\ nvar s m = v) /\
    PMC.Proofs.BddPrintP.no_bad e = true.
Proof. exact PMC.Proofs.BddPrintP.print_parse_sem. Qed.
Print Assumptions C18_print_parse.

(* OBDD(str(o.root), o.ordering) == o : the re-parsed diagram is the IDENTICAL root *)
Theorem C18_roundtrip : forall s r O, wf_store s -> nodup_vars O = true -> live s r = true ->
  ordered O s r ->
  exists s', reparse_root s (r, O) = Ok (s', (r, O)) /\ wf_store s' /\ extends s s'.
Proof. exact bdd_reparse_root. Qed.
Print Assumptions C18_roundtrip.

(* regression witness for fix F6: the pre-fix printer (no parentheses around a disjunctive
   child) breaks the round trip on the diagram of  a & (b | c) *)
Theorem C18_old_printer_refuted :
  exists s n env,
    match pyparse (PMC.Proofs.BddPrintP.print_node_old (nfuel n) s n) with
    | Some e => beval e env <> denote s n env
    | None => True
    end.
Proof.
  exists PMC.Proofs.BddPrintP.ex_store, 4, (fun v => Nat.eqb v 1). vm_compute. discriminate.
Qed.
Print Assumptions C18_old_printer_refuted.

(* non-vacuity *)
Example C18_example :
  match obdd_parse [] (BOr (BAnd (BVar 0) (BNot (BVar 1))) (BVar 2)) [0; 1; 2] with
  | Ok (s, o) => match reparse_root s o with
                 | Ok (_, o') => o' = o /\ List.length (print_root s (fst o)) > 5
                 | _ => False end
  | _ => False end.
Proof. vm_compute. split; [reflexivity|repeat constructor]. Qed.
