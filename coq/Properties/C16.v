(* C16 — equal Boolean functions share one OBDD under every creation / GC history
   (BDD/BDD.py unique table = weak parent sets, BDD/OBDD.py).  Theorems only; proofs in
   Proofs/BddP.v (store invariant, canonicity) and Proofs/BddHistP.v (histories), axiom-free.
   Model: Model/Bdd.v (store of hash-consed nodes; a node that dies disappears from the
   store = from the weak parent sets), Model/BddHist.v (a pool of OBDD references; the
   operations parse / lambda / & | ^ / ~ / restrict / reparse / drop and [HGc keep] = a garbage
   collection that happens to spare, besides what the pool references, an ARBITRARY extra set
   of nodes — i.e. every possible collector timing, not only CPython's). *)
From PMC Require Import Spec.Lemmas Proofs.BddP Proofs.BddHistP.

(* the invariant holds after EVERY history: the store is well-formed (ids sorted, children
   live and distinct, NO two live nodes with the same (var, low, high)) and every pool entry
   is a live root that respects its ordering *)
Theorem C16_invariant_all_histories : forall n ops, wf_h (hrun n ops).
Proof. exact hrun_inv. Qed.
Print Assumptions C16_invariant_all_histories.

Theorem C16_step : forall h op, wf_h h -> wf_h (hstep h op).
Proof. exact hstep_inv. Qed.
Print Assumptions C16_step.

Theorem C16_no_duplicate_triples : forall n ops, no_dup_triples (hstore (hrun n ops)) = true.
Proof. intros n ops. apply C16_no_dup. apply hrun_inv. Qed.
Print Assumptions C16_no_duplicate_triples.

(* canonicity: two live diagrams ordered by the same ordering denote the same Boolean
   function exactly when they are the identical node *)
Theorem C16_canonical : forall (O : list var) (s : store) (u v : nat),
  wf_store s -> NoDup O -> ordered O s u -> ordered O s v -> live s u = true -> live s v = true ->
  (forall env, denote s u env = denote s v env) -> u = v.
Proof. exact PMC.Proofs.BddP.C16_canonical. Qed.
Print Assumptions C16_canonical.

(* == on OBDDs: after any history, two pool entries with the same ordering compare equal (and
   then have the identical root) exactly when they denote the same Boolean function *)
Theorem C16_eq : forall n ops i j (a b : obdd),
  pool_get (hpool (hrun n ops)) i = Some a -> pool_get (hpool (hrun n ops)) j = Some b ->
  snd a = snd b ->
  (obdd_eq a b = true <->
   forall env, denote (hstore (hrun n ops)) (fst a) env = denote (hstore (hrun n ops)) (fst b) env).
Proof. intros n ops i j a b Ha Hb Ho. exact (PMC.Proofs.BddHistP.C16_eq _ i j a b (hrun_inv n ops) Ha Hb Ho). Qed.
Print Assumptions C16_eq.

Theorem C16_eq_is_identity : forall a b : obdd, obdd_eq a b = true <-> fst a = fst b /\ snd a = snd b.
Proof. exact obdd_eq_true. Qed.
Print Assumptions C16_eq_is_identity.

(* no operation — in particular no garbage collection and no failing operation — changes the
   function denoted by an entry of the pool *)
Theorem C16_meaning_stable : forall h op i r O, wf_h h -> pool_get (hpool h) i = Some (r, O) ->
  forall env, denote (hstore (hstep h op)) r env = denote (hstore h) r env.
Proof. exact hstep_denote_stable_strong. Qed.
Print Assumptions C16_meaning_stable.

(* garbage collection keeps the invariant and everything reachable from the roots *)
Theorem C16_collect : forall s roots, wf_store s -> (forall r, In r roots -> live s r = true) ->
  wf_store (collect s roots) /\
  (forall n t, lookup (collect s roots) n = Some t -> lookup s n = Some t /\ reachable_from s roots n) /\
  (forall n, reachable_from s roots n ->
     live (collect s roots) n = true /\ lookup (collect s roots) n = lookup s n /\
     (forall env, denote (collect s roots) n env = denote s n env) /\
     (forall O, ordered O s n -> ordered O (collect s roots) n)).
Proof. exact collect_spec. Qed.
Print Assumptions C16_collect.

(* two expressions of the same function parsed under one ordering share their root *)
Theorem C16_same_function_same_node : forall O s e1 e2 s1 n1 s2 n2, wf_store s ->
  bbuild O s e1 = Ok (s1, n1) -> bbuild O s1 e2 = Ok (s2, n2) ->
  (forall env, beval e1 env = beval e2 env) -> n1 = n2.
Proof. exact build_same_function_same_node. Qed.
Print Assumptions C16_same_function_same_node.

(* non-vacuity: a history with creation, combination, dropping and collection *)
Example C16_example :
  let h := hrun 4 [HParse 0 [0; 1] (BAnd (BVar 0) (BVar 1));
                   HParse 1 [0; 1] (BNot (BOr (BNot (BVar 0)) (BNot (BVar 1))));
                   HDrop 0; HGc []; HParse 2 [0; 1] (BAndL [BVar 1; BVar 0]);
                   HApply OpXor 1 2 3] in
  pool_roots (hpool h) = [4; 4; 0] /\ live_count (hstore h) = 3 /\
  live_count (hstore (hstep h (HGc []))) = 2.
Proof. vm_compute. repeat split. Qed.
