(* C15 — fairness restricts path quantifiers to fair paths (kripke.py get_fair_states /
   label_fair_states; get_equivalent_non_fair_formula in CTLS/ and CTL/language.py; the F=...
   paths of the three modelcheck functions, after fixes F3 and F4).

   The property as stated is REFUTED for the faithful model, exactly as it fails for the code
   (known findings KF-C15-a, KF-C15-b in known_findings.json): the theorems named ..._refuted
   carry concrete witnesses.  What does hold is proved: the coded fair set is SOUND, the repaired
   triviality test gives the EXACT fair set (what a repair must compute), the fair label is
   fresh, no call raises an internal error, non-formulas are rejected.  Fair semantics
   (Clarke-Grumberg-Peled, as cited by the documentation) is Spec/FairSemantics.v.
   Proofs in Proofs/FairP.v and Proofs/FairCtlsP.v. *)
From PMC Require Import Spec.Lemmas Spec.FairSemantics Proofs.KripkeP Proofs.FairP Proofs.FairCtlsP.

(* ---- what holds ---- *)

(* every state reported fair really starts a fair path *)
Theorem C15_fair_states_sound : forall K F, wf_kripke K -> forall s,
  In s (get_fair_states K F) -> In s (states K) /\ fair_state K F s.
Proof. exact get_fair_states_sound. Qed.
Print Assumptions C15_fair_states_sound.

(* with the repaired triviality test (size >= 2 OR self loop) the fair set is exact *)
Theorem C15_fair_states_ref_exact : forall K F, wf_kripke K -> forall s,
  In s (fair_states_ref K F) <-> In s (states K) /\ fair_state K F s.
Proof. exact fair_states_ref_exact. Qed.
Print Assumptions C15_fair_states_ref_exact.

Theorem C15_coded_subset_of_exact : forall K F, wf_kripke K -> incl (get_fair_states K F) (fair_states_ref K F).
Proof. exact get_fair_states_incl_ref. Qed.
Print Assumptions C15_coded_subset_of_exact.

(* the label 'fair', 'fair0', ... chosen by label_fair_states never collides with an existing
   label, and marks exactly the computed fair states *)
Theorem C15_fair_label_fresh : forall K, ~ In (fair_label K) (all_labels K).
Proof. exact fair_label_fresh. Qed.
Print Assumptions C15_fair_label_fresh.

Theorem C15_fair_label_marks : forall K F, wf_K K -> forall s,
  labelled (fst (label_fair_states K F)) s (snd (label_fair_states K F)) <->
  In s (get_fair_states K F) /\ In s (states K).
Proof. exact fair_label_marks. Qed.
Print Assumptions C15_fair_label_marks.

(* for every F no call raises an internal error: a set of states of K is returned *)
Theorem C15_no_error_ctl : forall K f F, wf_K K -> ctl_state f = true ->
  exists S, ctl_modelcheck_fair K f F = Ok S /\ NoDup S /\ incl S (states K).
Proof. exact ctl_fair_no_error. Qed.
Print Assumptions C15_no_error_ctl.

Theorem C15_no_error_ltl : forall K g F, wf_K K -> ltl_path g = true ->
  exists S, ltl_modelcheck_fair K (FA g) F = Ok S /\ incl S (states K).
Proof. exact ltl_fair_no_error. Qed.
Print Assumptions C15_no_error_ltl.

Theorem C15_no_error_ctls : forall K f F, wf_K K -> ctls_state f = true ->
  exists S, ctls_modelcheck_fair K f F = Ok S /\ NoDup S /\ incl S (states K).
Proof. exact ctls_fair_no_error. Qed.
Print Assumptions C15_no_error_ctls.

Theorem C15_guards : forall K f F,
  (ctl_state f = false -> ctl_modelcheck_fair K f F = TypeErr) /\
  (ltl_state f = false -> ltl_modelcheck_fair K f F = TypeErr).
Proof. intros K f F. split; [exact (ctl_fair_guard K f F) | exact (ltl_fair_guard K f F)]. Qed.
Print Assumptions C15_guards.

(* the CTL fairness rewriting never hits its `raise TypeError` on a CTL state formula *)
Theorem C15_unfair_ctl_total : forall a f, ctl_state f = true ->
  exists f', unfair_ctl a f = Some f' /\ ctl_state f' = true.
Proof. exact unfair_ctl_ok. Qed.
Print Assumptions C15_unfair_ctl_total.

(* ---- what fails (known findings) ---- *)

(* KF-C15-a: get_fair_states misses fair states (one state with a self loop, F = []) *)
Theorem C15_fair_states_complete_refuted :
  exists K F s, wf_kripke K /\ fair_state K F s /\ In s (states K) /\ ~ In s (get_fair_states K F).
Proof. exact get_fair_states_incomplete_refuted. Qed.
Print Assumptions C15_fair_states_complete_refuted.

(* KF-C15-a: an F that every path satisfies (F = []) does not give the unconstrained answer *)
Theorem C15_trivial_F_refuted :
  exists K f, wf_kripke K /\ ctl_state f = true /\ ctl_modelcheck_fair K f [] <> ctl_modelcheck K f.
Proof. exact trivial_F_refuted. Qed.
Print Assumptions C15_trivial_F_refuted.

(* KF-C15-b: even where the fair set is right, the CTL reduction is not the fair semantics *)
Theorem C15_ctl_reduction_refuted :
  exists K F f g, wf_kripke K /\ ctl_state f = true /\ f = FE g /\
    (forall s, In s (get_fair_states K F) <-> In s (states K) /\ fair_state K F s) /\
    exists S, ctl_modelcheck_fair K f F = Ok S /\
      ~ (forall s, In s S <-> In s (states K) /\
           exists q, is_path K q /\ q 0 = s /\ fair_path F q /\ fsat K F q g).
Proof. exact reduction_refuted. Qed.
Print Assumptions C15_ctl_reduction_refuted.

(* KF-C15-b for the LTL and CTL* reductions *)
Theorem C15_ltl_reduction_refuted :
  exists K F g, wf_kripke K /\ ltl_path g = true /\
    (forall s, In s (get_fair_states K F) <-> In s (states K) /\ fair_state K F s) /\
    exists S, ltl_modelcheck_fair K (FA g) F = Ok S /\
      ~ (forall s, In s S <-> In s (states K) /\
           forall q, is_path K q -> q 0 = s -> fair_path F q -> fsat K F q g).
Proof. exact ltl_reduction_refuted. Qed.
Print Assumptions C15_ltl_reduction_refuted.

Theorem C15_ctls_reduction_refuted :
  exists K F g, wf_kripke K /\ ctls_state (FA g) = true /\
    (forall s, In s (get_fair_states K F) <-> In s (states K) /\ fair_state K F s) /\
    exists S, ctls_modelcheck_fair K (FA g) F = Ok S /\
      ~ (forall s, In s S <-> In s (states K) /\
           forall q, is_path K q -> q 0 = s -> fair_path F q -> fsat K F q g).
Proof. exact ctls_reduction_refuted. Qed.
Print Assumptions C15_ctls_reduction_refuted.
