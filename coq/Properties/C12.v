(* C12 — strongly connected components are computed exactly (graph.py compute_SCCs).
   Theorem only; the proof (invariant of the Nuutila/Tarjan DFS, by induction on fuel with
   an inner induction over successor lists) is in Proofs/SccP.v. *)
From PMC Require Import Spec.Lemmas Model.SccLoop Proofs.SccP Proofs.SccLoopP.
From PMC Require Proofs.GraphP.

(* for EVERY well-formed digraph: the yielded lists are pairwise disjoint, cover exactly the
   nodes, and two nodes share a list exactly when each is reachable from the other *)
Theorem C12_exact : forall g, wf_graph g ->
  NoDup (concat (compute_SCCs g)) /\
  (forall x, In x (nodes g) <-> In x (concat (compute_SCCs g))) /\
  (forall c x, In c (compute_SCCs g) -> In x c -> forall y, In y c <-> mutual g x y).
Proof. exact scc_correct. Qed.
Print Assumptions C12_exact.

(* every DiGraph(V, E) is such a graph *)
Theorem C12_on_constructed_graphs : forall V E, scc_spec (mk_graph V E) (compute_SCCs (mk_graph V E)).
Proof. intros V E. apply scc_correct. apply PMC.Proofs.GraphP.mk_graph_spec. Qed.
Print Assumptions C12_on_constructed_graphs.

(* the code is NOT recursive: it runs a `while stack:` loop over an explicit stack of
   [node, iterator] frames.  Model/SccLoop.v is a small-step model of exactly that loop, and it
   computes the SAME list (same components, same order) as the recursive model above *)
Theorem C12_loop_is_recursion : forall g, wf_graph g -> compute_SCCs_loop g = compute_SCCs g.
Proof. exact compute_SCCs_loop_eq. Qed.
Print Assumptions C12_loop_is_recursion.

Theorem C12_loop_exact : forall g, wf_graph g -> scc_spec g (compute_SCCs_loop g).
Proof. exact scc_loop_correct. Qed.
Print Assumptions C12_loop_exact.

(* non-vacuity: a graph with a 2-cycle, a self loop and a trivial component *)
Example C12_example :
  compute_SCCs (mk_graph [0; 1; 2; 3] [(0, 1); (1, 0); (1, 2); (2, 2); (2, 3)]) = [[3]; [2]; [0; 1]].
Proof. vm_compute. reflexivity. Qed.
