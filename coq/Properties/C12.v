(* C12 — strongly connected components are computed exactly (graph.py compute_SCCs). *)
From PMC Require Import Spec.Lemmas.
(* placeholder until Proofs/SccP.v is assembled: non-vacuity of the statement *)
Example C12_wf_example : wf_graph [(0, [1]); (1, [0; 2]); (2, [])].
Proof.
  repeat split.
  - repeat constructor; simpl; intuition congruence.
  - intros x. destruct x as [|[|[|x]]]; simpl; repeat constructor; simpl; intuition congruence.
  - unfold edge in H. destruct x as [|[|[|x]]]; simpl in *; intuition.
  - unfold edge in H. destruct x as [|[|[|x]]]; simpl in *; intuition; subst; simpl; auto.
Qed.
