(* C12 — strongly connected components are computed exactly (graph.py compute_SCCs).
   Theorem only; the proof (invariant of the Nuutila/Tarjan DFS, by induction on fuel with
   an inner induction over successor lists) is in Proofs/SccP.v. *)
From PMC Require Import Spec.Lemmas Proofs.SccP.
From PMC Require Proofs.GraphP.

(* for EVERY well-formed digraph: the yielded lists are pairwise disjoint, cover exactly the
   nodes, and two nodes share a list exactly when each is reachable from the other *)
Theorem C12_exact : forall g, wf_graph g ->
  NoDup (concat (compute_SCCs g)) /\
  (forall x, In x (nodes g) <-> In x (concat (compute_SCCs g))) /\
  (forall c x, In c (compute_SCCs g) -> In x c -> forall y, In y c <-> mutual g x y).
Proof. exact scc_correct. Qed.
Print Assumptions C12_exact.

(* every DiGraph(V, E) is such a graph *)
Theorem C12_on_constructed_graphs : forall V E, scc_spec (mk_graph V E) (compute_SCCs (mk_graph V E)).
Proof. intros V E. apply scc_correct. apply PMC.Proofs.GraphP.mk_graph_spec. Qed.
Print Assumptions C12_on_constructed_graphs.

(* non-vacuity: a graph with a 2-cycle, a self loop and a trivial component *)
Example C12_example :
  compute_SCCs (mk_graph [0; 1; 2; 3] [(0, 1); (1, 0); (1, 2); (2, 2); (2, 3)]) = [[3]; [2]; [0; 1]].
Proof. vm_compute. reflexivity. Qed.
