(* C11 — formula equality, hashing and cloning are coherent (language.py Formula.__eq__ /
   __hash__ compare the printed form; Bool.__eq__ overrides).  Theorems only; proofs in
   Proofs/PrintP.v (axiom-free): the printers are injective on formulas of a logic over
   identifier atoms that are not reserved words, so printed-form equality IS tree equality.
   [good L f] = f is a formula of logic L, all atoms match [a-zA-Z_][a-zA-Z_0-9]* and are not
   reserved words, n-ary and/or have >= 2 operands. *)
From PMC Require Import Spec.Lemmas Proofs.PrintP.

Theorem C11_eq_iff_tree : forall L f g, good L f = true -> good L g = true ->
  (eq_obj (L, f) (L, g) = true <-> f = g).
Proof. exact eq_obj_iff_tree. Qed.
Print Assumptions C11_eq_iff_tree.

Theorem C11_refl : forall L f, good L f = true -> eq_obj (L, f) (L, f) = true.
Proof. exact eq_obj_refl. Qed.
Print Assumptions C11_refl.

Theorem C11_sym : forall L f g, good L f = true -> good L g = true ->
  eq_obj (L, f) (L, g) = eq_obj (L, g) (L, f).
Proof. exact eq_obj_sym. Qed.
Print Assumptions C11_sym.

Theorem C11_trans : forall L f g h, good L f = true -> good L g = true -> good L h = true ->
  eq_obj (L, f) (L, g) = true -> eq_obj (L, g) (L, h) = true -> eq_obj (L, f) (L, h) = true.
Proof. exact eq_obj_trans. Qed.
Print Assumptions C11_trans.

(* equal formulas have equal hashes; and (one key in sets/dicts) equal hashes of good
   formulas of one logic mean equal trees *)
Theorem C11_hash : forall L f g, eq_obj (L, f) (L, g) = true ->
  good L f = true -> good L g = true -> hash_obj (L, f) = hash_obj (L, g).
Proof. exact eq_obj_hash. Qed.
Print Assumptions C11_hash.

Theorem C11_hash_inj : forall L f g, good L f = true -> good L g = true ->
  hash_obj (L, f) = hash_obj (L, g) -> f = g.
Proof. exact hash_obj_inj. Qed.
Print Assumptions C11_hash_inj.

(* Bool(b) == b' for Python booleans (both argument orders use Bool.__eq__) *)
Theorem C11_bool : forall L b b', eq_obj_pybool (L, FBool b) b' = Bool.eqb b b'.
Proof. exact eq_bool_pybool. Qed.
Print Assumptions C11_bool.

(* why reserved words are excluded by the property: with an atom named "true" symmetry fails *)
Theorem C11_reserved_refuted : exists a b : obj, eq_obj a b <> eq_obj b a.
Proof. exact reserved_atom_breaks_symmetry. Qed.
Print Assumptions C11_reserved_refuted.

(* the injectivity the checkers rely on (they memoise and compare formulas by printed form) *)
Theorem C11_print_injective : forall L f g, good L f = true -> good L g = true ->
  print L f = print L g -> f = g.
Proof. exact print_inj. Qed.
Print Assumptions C11_print_injective.

(* non-vacuity *)
From Coq Require Import String.
Example C11_example :
  good CTL (FA (FU (FAtom "AX") (FOr [FAtom "p_1"; FNot (FAtom "Until")])))%string = true /\
  eq_obj (LTL, FG (FAtom "p"))%string (LTL, FG (FAtom "p"))%string = true /\
  eq_obj (LTL, FG (FAtom "p"))%string (LTL, FF (FAtom "p"))%string = false.
Proof. vm_compute. repeat split. Qed.
