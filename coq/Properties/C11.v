(* C11 — formula equality, hashing and cloning are coherent (language.py Formula.__eq__ /
   __hash__ compare the printed form; Bool.__eq__ overrides).  Theorems only; proofs in
   Proofs/PrintP.v (axiom-free): the printers are injective on formulas of a logic over
   identifier atoms that are not reserved words, so printed-form equality IS tree equality.
   [good L f] = f is a formula of logic L, all atoms match [a-zA-Z_][a-zA-Z_0-9]* and are not
   reserved words, n-ary and/or have >= 2 operands. *)
From PMC Require Import Spec.Lemmas Proofs.PrintP Model.FormHeap Proofs.FormHeapP.

Theorem C11_eq_iff_tree : forall L f g, good L f = true -> good L g = true ->
  (eq_obj (L, f) (L, g) = true <-> f = g).
Proof. exact eq_obj_iff_tree. Qed.
Print Assumptions C11_eq_iff_tree.

Theorem C11_refl : forall L f, good L f = true -> eq_obj (L, f) (L, f) = true.
Proof. exact eq_obj_refl. Qed.
Print Assumptions C11_refl.

Theorem C11_sym : forall L f g, good L f = true -> good L g = true ->
  eq_obj (L, f) (L, g) = eq_obj (L, g) (L, f).
Proof. exact eq_obj_sym. Qed.
Print Assumptions C11_sym.

Theorem C11_trans : forall L f g h, good L f = true -> good L g = true -> good L h = true ->
  eq_obj (L, f) (L, g) = true -> eq_obj (L, g) (L, h) = true -> eq_obj (L, f) (L, h) = true.
Proof. exact eq_obj_trans. Qed.
Print Assumptions C11_trans.

(* equal formulas have equal hashes; and (one key in sets/dicts) equal hashes of good
   formulas of one logic mean equal trees *)
Theorem C11_hash : forall L f g, eq_obj (L, f) (L, g) = true ->
  good L f = true -> good L g = true -> hash_obj (L, f) = hash_obj (L, g).
Proof. exact eq_obj_hash. Qed.
Print Assumptions C11_hash.

Theorem C11_hash_inj : forall L f g, good L f = true -> good L g = true ->
  hash_obj (L, f) = hash_obj (L, g) -> f = g.
Proof. exact hash_obj_inj. Qed.
Print Assumptions C11_hash_inj.

(* Bool(b) == b' for Python booleans (both argument orders use Bool.__eq__) *)
Theorem C11_bool : forall L b b', eq_obj_pybool (L, FBool b) b' = Bool.eqb b b'.
Proof. exact eq_bool_pybool. Qed.
Print Assumptions C11_bool.

(* why reserved words are excluded by the property: with an atom named "true" symmetry fails *)
Theorem C11_reserved_refuted : exists a b : obj, eq_obj a b <> eq_obj b a.
Proof. exact reserved_atom_breaks_symmetry. Qed.
Print Assumptions C11_reserved_refuted.

(* the injectivity the checkers rely on (they memoise and compare formulas by printed form) *)
Theorem C11_print_injective : forall L f g, good L f = true -> good L g = true ->
  print L f = print L g -> f = g.
Proof. exact print_inj. Qed.
Print Assumptions C11_print_injective.

(* ---------------------------------------------------------------------------------------- *)
(* clone() shares no mutable node; __hash__ reads the CURRENT tree — on a heap model          *)
(* ---------------------------------------------------------------------------------------- *)
(* On pure trees "shares no mutable node with the original" and "a formula edited after it was
   hashed" are vacuous.  Model/FormHeap.v: formula nodes are heap cells (an operator cell holds
   the LOCATIONS of its operands, an atom cell its name, a Bool cell its value), constructors
   and parsers allocate one new cell per node, clone() re-allocates the whole tree, the caller
   may rename atoms / flip Bools in place.  Proofs in Proofs/FormHeapP.v (axiom-free). *)

(* the clone is an equal formula, every node of it is a cell that did not exist before (so no
   node is shared with the original or with anything else), the original is untouched *)
Theorem C11_clone_fresh : forall fuel h l f, fabs fuel h l = Some f ->
  exists h' l', clone_fh fuel h l = Some (h', l') /\
    fabs fuel h' l' = Some f /\ fabs (S (height f)) h' l' = Some f /\
    (forall x, freach h' l' x -> ~ fallocated h x) /\
    (forall x, freach h' l' x -> ~ freach h' l x) /\
    fabs fuel h' l = Some f /\ fframe h h'.
Proof. exact clone_fh_spec. Qed.
Print Assumptions C11_clone_fresh.

(* whatever is edited in place in the original (or anywhere in the old heap) leaves the clone's
   tree alone, and whatever is edited in the clone leaves the original's tree alone *)
Theorem C11_clone_independent : forall fuel h l f h' l',
  fabs fuel h l = Some f -> clone_fh fuel h l = Some (h', l') ->
  (forall ws, (forall w, In w ws -> fallocated h (wloc w)) -> fabs fuel (apply_fwrites h' ws) l' = Some f) /\
  (forall ws, (forall w, In w ws -> freach h' l (wloc w)) -> fabs fuel (apply_fwrites h' ws) l' = Some f) /\
  (forall ws, (forall w, In w ws -> ~ fallocated h (wloc w)) -> fabs fuel (apply_fwrites h' ws) l = Some f) /\
  (forall ws, (forall w, In w ws -> freach h' l' (wloc w)) -> fabs fuel (apply_fwrites h' ws) l = Some f).
Proof. exact clone_independent. Qed.
Print Assumptions C11_clone_independent.

(* in EVERY heap - whatever was hashed or written before - two objects that are == have the
   same hash: __eq__ and __hash__ are functions of the current trees *)
Theorem C11_edited_formula_hash : forall L fuel h0 ws a b f g,
  let h := apply_fwrites h0 ws in
  fabs fuel h a = Some f -> fabs fuel h b = Some g ->
  eq_fh L fuel h a b = true -> good L f = true -> good L g = true ->
  hash_fh L fuel h a = hash_fh L fuel h b.
Proof. exact edited_eq_same_hash_after_writes. Qed.
Print Assumptions C11_edited_formula_hash.

(* non-vacuity: copy.copy (a new root over the SAME operand cells) is not independent, and a
   hash remembered on the object is not coherent with == after an edit *)
Theorem C11_shallow_clone_refuted :
  ~ (forall fuel h l f h' l' ws, fabs fuel h l = Some f -> clone_shallow_fh h l = Some (h', l') ->
       (forall w, In w ws -> freach h' l' (wloc w)) ->
       fabs fuel (apply_fwrites h' ws) l = Some f).
Proof. exact FExamples.shallow_clone_refutes_independence. Qed.
Print Assumptions C11_shallow_clone_refuted.

(* non-vacuity *)
From Coq Require Import String.

(* hash an atom p, rename it to q: it is == to a fresh q and the real __hash__ agrees, but a
   hash cached on the object still answers "p" *)
Theorem C11_cached_hash_refuted :
  let '(h1, l) := falloc_form [] (FAtom "p"%string) in
  let '(o1, s1) := hash_cached_fh PL 1 h1 (l, None) in
  let h2 := apply_fwrite h1 (WRename l "q"%string) in
  let '(h3, l3) := falloc_form h2 (FAtom "q"%string) in
  let '(o2, s2) := hash_cached_fh PL 1 h3 o1 in
  let '(o4, s4) := hash_cached_fh PL 1 h3 (l3, None) in
  s1 = Some "p"%string /\ l3 <> l /\ fabs 1 h3 l = Some (FAtom "q"%string) /\
  eq_fh PL 1 h3 l l3 = true /\ hash_fh PL 1 h3 l = hash_fh PL 1 h3 l3 /\
  hash_fh PL 1 h3 l3 = Some "q"%string /\ s4 = Some "q"%string /\ s2 = Some "p"%string /\
  s2 <> s4 /\ s2 <> hash_fh PL 1 h3 l3.
Proof. exact FExamples.cached_hash_incoherent. Qed.
Print Assumptions C11_cached_hash_refuted.

Example C11_example :
  good CTL (FA (FU (FAtom "AX") (FOr [FAtom "p_1"; FNot (FAtom "Until")])))%string = true /\
  eq_obj (LTL, FG (FAtom "p"))%string (LTL, FG (FAtom "p"))%string = true /\
  eq_obj (LTL, FG (FAtom "p"))%string (LTL, FF (FAtom "p"))%string = false.
Proof. vm_compute. repeat split. Qed.
