(* C13 — reachability, reversal, subgraph extraction and clone (graph.py DiGraph). *)
From PMC Require Import Spec.Lemmas.
