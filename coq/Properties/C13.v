(* C13 — reachability, reversal, subgraph extraction and clone are exact and
   non-destructive (graph.py, class DiGraph).  Theorems only; proofs are in
   Proofs/GraphP.v.  The model functions are pure (they return new values), which is the
   model-level form of "none of these change G".  INDEPENDENCE (of a clone, and of every
   graph the operations return) is not expressible on pure values: it is stated at the end on
   a heap model (Model/GraphHeap.v: successor sets are mutable cells, a DiGraph object maps
   nodes to cells, the constructor allocates fresh cells) and additionally monitored on the
   Python objects by the correspondence check. *)
From PMC Require Import Spec.Lemmas Proofs.GraphP Model.GraphHeap Proofs.GraphHeapP Model.GraphOps Proofs.GraphOpsP.

(* get_reachable_set_from(X) = X plus everything reachable from X; foreign start node -> RuntimeError *)
Theorem C13_reach : forall g X, wf_graph g -> incl X (nodes g) ->
  reach_r g X = Ok (reach g X) /\ NoDup (reach g X) /\
  forall y, In y (reach g X) <-> exists x, In x X /\ reaches g x y.
Proof. intros g X Hg HX. split; [exact (reach_r_ok g X HX) | exact (reach_exact g X Hg HX)]. Qed.
Print Assumptions C13_reach.

Theorem C13_reach_foreign : forall g X x, In x X -> ~ In x (nodes g) -> reach_r g X = RuntimeErr.
Proof. exact reach_r_err. Qed.
Print Assumptions C13_reach_foreign.

(* get_reversed_graph(): same nodes, exactly the flipped edges; twice = the original *)
Theorem C13_reversed : forall g, wf_graph g ->
  wf_graph (reversed g) /\
  (forall x, In x (nodes (reversed g)) <-> In x (nodes g)) /\
  (forall x y, edge (reversed g) x y <-> edge g y x).
Proof. exact reversed_spec. Qed.
Print Assumptions C13_reversed.

Theorem C13_reversed_twice : forall g, wf_graph g ->
  (forall x, In x (nodes (reversed (reversed g))) <-> In x (nodes g)) /\
  (forall x y, edge (reversed (reversed g)) x y <-> edge g x y).
Proof. exact reversed_involutive. Qed.
Print Assumptions C13_reversed_twice.

(* get_subgraph(X): nodes X ∩ V, exactly the edges with both ends in X *)
Theorem C13_subgraph : forall g X, wf_graph g ->
  wf_graph (subgraph g X) /\
  (forall x, In x (nodes (subgraph g X)) <-> In x X /\ In x (nodes g)) /\
  (forall x y, edge (subgraph g X) x y <-> edge g x y /\ In x X /\ In y X).
Proof. exact subgraph_spec. Qed.
Print Assumptions C13_subgraph.

(* clone() is equal *)
Theorem C13_clone : forall g, clone g = g.
Proof. exact clone_id. Qed.
Print Assumptions C13_clone.

(* DiGraph(V, E) builds a well-formed graph with exactly these nodes and edges *)
Theorem C13_mk_graph : forall V E, wf_graph (mk_graph V E) /\
  (forall x, In x (nodes (mk_graph V E)) <-> In x V \/ exists y, In (x, y) E \/ In (y, x) E) /\
  (forall x y, edge (mk_graph V E) x y <-> In (x, y) E).
Proof. exact mk_graph_spec. Qed.
Print Assumptions C13_mk_graph.

(* non-vacuity: a concrete well-formed graph, a non-trivial reachable set *)
Example C13_example :
  let g := mk_graph [0; 1; 2; 3] [(0, 1); (1, 2); (2, 1); (3, 0)] in
  reach_r g [1] = Ok [1; 2] /\ edges (reversed g) = [(0, 3); (1, 0); (1, 2); (2, 1)] /\
  subgraph g [0; 1; 3] = [(0, [1]); (1, []); (3, [0])].
Proof. vm_compute. repeat split. Qed.

(* ---------------------------------------------------------------------------------------- *)
(* graphs edited after construction: add_node / add_edge                                      *)
(* ---------------------------------------------------------------------------------------- *)
(* one call raises RuntimeError exactly when the node / edge it names is already there, and
   otherwise adds exactly what it names (an edge also its two ends) *)
Theorem C13_mutator_call : forall g o, wf_graph g ->
  (forall g', apply_gop g o = Ok g' ->
     wf_graph g' /\
     (forall x, In x (nodes g') <-> In x (nodes g) \/ names_node o x) /\
     (forall x y, edge g' x y <-> edge g x y \/ names_edge o x y)) /\
  (apply_gop g o = RuntimeErr \/ exists g', apply_gop g o = Ok g') /\
  (apply_gop g o = RuntimeErr <->
     match o with OpNode v => In v (nodes g) | OpEdge s d => edge g s d end).
Proof. exact apply_gop_spec. Qed.
Print Assumptions C13_mutator_call.

(* any sequence of calls by a caller who catches the RuntimeErrors: at the end the graph has
   exactly the old nodes and edges plus everything the calls named - in particular nothing is
   ever lost (an add_edge that erased the successors of its target would violate this) *)
Theorem C13_mutator_histories : forall ops g gf bs, wf_graph g -> run_gops g ops = (gf, bs) ->
  wf_graph gf /\
  (forall x, In x (nodes gf) <-> In x (nodes g) \/ exists o, In o ops /\ names_node o x) /\
  (forall x y, edge gf x y <-> edge g x y \/ exists o, In o ops /\ names_edge o x y) /\
  length bs = length ops.
Proof. exact run_gops_spec. Qed.
Print Assumptions C13_mutator_histories.

(* building (V, E) through add_node / add_edge, nodes first or edges first, gives the graph the
   constructor gives *)
Theorem C13_incremental_construction : forall V E gi,
  gi = build_nodes_first V E \/ gi = build_edges_first V E ->
  wf_graph gi /\
  (forall x, In x (nodes gi) <-> In x (nodes (mk_graph V E))) /\
  (forall x y, edge gi x y <-> edge (mk_graph V E) x y).
Proof. exact incremental_is_constructor. Qed.
Print Assumptions C13_incremental_construction.

(* ---------------------------------------------------------------------------------------- *)
(* independence, on the heap model                                                            *)
(* ---------------------------------------------------------------------------------------- *)
(* clone(): equal value, cells that did not exist before (so none is shared with G or with
   anything else), G itself untouched *)
Theorem C13_clone_independent : forall h g h' o, gvalid h g -> clone_gh h g = (h', o) ->
  gframe h h' /\ gabs h' o = clone (gabs h g) /\
  (forall l, In l (glocs o) -> ~ gallocated h l) /\
  (forall l, In l (glocs o) -> ~ In l (glocs g)) /\
  gabs h' g = gabs h g.
Proof. exact clone_gh_spec. Qed.
Print Assumptions C13_clone_independent.

(* whatever the caller writes IN PLACE into the successor sets of a clone / reversed graph /
   subgraph, G keeps its value; whatever is written into G's sets, the result keeps its value *)
Theorem C13_results_independent : forall h g h' o, gvalid h g -> gop_result h g h' o ->
  (forall ws, (forall w, In w ws -> In (fst w) (glocs o)) -> gabs (gwrites h' ws) g = gabs h g) /\
  (forall ws, (forall w, In w ws -> In (fst w) (glocs g)) -> gabs (gwrites h' ws) o = gabs h' o).
Proof. exact result_independent. Qed.
Print Assumptions C13_results_independent.

(* sessions: any sequence of clone / reverse / subgraph / reachability calls on G interleaved
   with the caller EDITING the graphs it got back (add_edge on the i-th result): every call
   returns what the pure function returns on the value G had at the start, and G still has
   that value at the end *)
Theorem C13_session : forall h0 g ss, gvalid h0 g ->
  snd (run_gsession h0 g ss) = spec_gsession (gabs h0 g) ss /\
  gabs (fst (run_gsession h0 g ss)) g = gabs h0 g.
Proof. exact gsession_correct. Qed.
Print Assumptions C13_session.

(* non-vacuity: a clone that shares the successor sets (`nDG._next = dict(self._next)`) and a
   reversal that hands out a memoised object both violate it *)
Theorem C13_shallow_clone_refuted :
  ~ (forall h g h' o s d, gvalid h g -> clone_shallow_gh h g = (h', o) ->
       gabs (add_edge_gh h' o s d) g = gabs h g).
Proof. exact GExamples.shallow_clone_refutes_independence. Qed.
Print Assumptions C13_shallow_clone_refuted.

Theorem C13_cached_reverse_refuted :
  snd (run_gsession_cached GExamples.h0 GExamples.g0 GExamples.ss0)
    <> spec_gsession (gabs GExamples.h0 GExamples.g0) GExamples.ss0.
Proof. exact (proj1 GExamples.cached_session_wrong). Qed.
Print Assumptions C13_cached_reverse_refuted.
