(* C08 — formula objects always belong to their logic; out-of-logic input is rejected
   (language.py wrap_subformulas / cast_to, the four */language.py class lattices, the
   modelcheck guards).  Theorems only; proofs in Proofs/SyntaxP.v (axiom-free).
   A Python formula object is modelled as (language module, operator tree); [member L f]
   is the documented grammar of logic L (PL: Boolean trees; CTL*: every tree is a path
   formula; CTL: state formulas with A/E paired with one temporal operator, or one such
   path formula; LTL: quantifier-free path formulas, or A applied to one). *)
From PMC Require Import Spec.Lemmas Proofs.SyntaxP.

(* construction: Lang.Op(args...) on well-formed operands succeeds exactly when the result is
   a formula of Lang with the documented arity, and then it IS that tree; otherwise TypeError *)
Theorem C08_construct : forall L o args r, Forall wf_obj args ->
  (mk L o args = Ok r <->
   r = (L, build o (map snd args)) /\ in_alphabet L o = true /\
   arity_matches o (length args) = true /\ member L (build o (map snd args)) = true).
Proof. exact mk_ok_iff. Qed.
Print Assumptions C08_construct.

Theorem C08_construct_total : forall L o args, Forall wf_obj args ->
  (mk L o args = Ok (L, build o (map snd args)) /\ member L (build o (map snd args)) = true /\
   arity_matches o (length args) = true /\ in_alphabet L o = true) \/ mk L o args = TypeErr.
Proof. exact mk_spec. Qed.
Print Assumptions C08_construct_total.

(* every object that can be built is a formula of its logic (by induction over any
   construction history this is the invariant [wf_obj] of all objects) ... *)
Theorem C08_built_objects_are_members : forall L o args r,
  Forall wf_obj args -> mk L o args = Ok r -> wf_obj r.
Proof. exact mk_wf. Qed.
Print Assumptions C08_built_objects_are_members.

(* ... and every formula of a logic can be built *)
Theorem C08_members_can_be_built : forall L f, member L f = true ->
  arity_matches (root_op f) (length (children f)) = true ->
  mk L (root_op f) (map (fun g => (L, g)) (children f)) = Ok (L, f).
Proof. exact mk_complete. Qed.
Print Assumptions C08_members_can_be_built.

(* cast_to: same tree in the target logic, or TypeError exactly when the tree is not a
   formula of the target logic *)
Theorem C08_cast : forall L o,
  (forall o', cast_to L o = Ok o' -> fst o' = L /\ snd o' = snd o /\ wf_obj o') /\
  (cast_to L o = TypeErr <-> member L (snd o) = false).
Proof. exact cast_to_spec. Qed.
Print Assumptions C08_cast.

Theorem C08_cast_total : forall L o, cast_to L o = Ok (L, snd o) \/ cast_to L o = TypeErr.
Proof. exact cast_to_total. Qed.
Print Assumptions C08_cast_total.

(* the modelcheck guards: a set is returned only for a state formula of the called logic *)
Theorem C08_guard_ctl : forall K f, ctl_state f = false -> ctl_modelcheck K f = TypeErr.
Proof. exact ctl_modelcheck_reject. Qed.
Print Assumptions C08_guard_ctl.

Theorem C08_guard_ltl : forall K f, ltl_modelcheck K f = TypeErr <-> ltl_state f = false.
Proof. exact ltl_modelcheck_guard. Qed.
Print Assumptions C08_guard_ltl.

(* the logics are nested as documented *)
Theorem C08_inclusions : forall f,
  (pl_ok f = true -> ctl_state f = true /\ ltl_path f = true /\ ctls_state f = true) /\
  (ctl_state f = true -> ctls_state f = true) /\ (ltl_state f = true -> ctls_state f = true).
Proof.
  intros f. split; [exact (pl_incl f)|]. split; [exact (ctl_state_ctls_state f)|exact (ltl_state_ctls_state f)].
Qed.
Print Assumptions C08_inclusions.

(* non-vacuity *)
From Coq Require Import String.
Example C08_example :
  mk CTL OA [(CTL, FG (FAtom "p"))]%string = Ok (CTL, FA (FG (FAtom "p")))%string /\
  mk CTL OA [(CTL, FAtom "p")]%string = TypeErr /\
  mk PL ONot [(CTLS, FA (FAtom "p"))]%string = TypeErr /\
  cast_to CTL (CTLS, FA (FU (FAtom "p") (FE (FX (FAtom "q")))))%string = Ok (CTL, FA (FU (FAtom "p") (FE (FX (FAtom "q")))))%string /\
  cast_to LTL (CTLS, FNot (FA (FAtom "p")))%string = TypeErr.
Proof. vm_compute. repeat split. Qed.
