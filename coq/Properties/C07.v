(* C07 — model checking is a pure function of its arguments.

   The pure Gallina models (Model/CTLmc.v, LTLmc.v, CTLSmc.v, Fair.v) return new values, so for
   them "the caller's structure is unchanged" is true by construction and says nothing about the
   code's clone-then-label discipline.  The statement is therefore proved on a HEAP model
   (Model/Heap.v) in which the danger is expressible: label sets are mutable cells, a Kripke
   object maps every state to the cell of its label set, clone() allocates fresh cells,
   labels(s).add(a) and label_fair_states write through cells, and the six entry points
   (CTL / LTL / CTL* modelcheck, with and without fairness constraints) are imperative
   transcriptions of the code.  Theorems only; proofs in Proofs/HeapP.v (axiom-free).
   [abs h k] is the value (a [kripke]) of object k in heap h; [pure_call h c] is the pure model
   applied to the values of the call's arguments. *)
From PMC Require Import Spec.Lemmas Model.Heap Model.HeapSession Model.FairCells Proofs.HeapP Proofs.HeapSessionP Proofs.FairCellsP.

(* one call: every cell that existed before the call is unchanged (FRAME) and the result is the
   pure function of the argument values (REFINEMENT) *)
Theorem C07_call : forall h c h' r, run_call h c = (h', r) -> frame h h' /\ r = pure_call h c.
Proof. exact run_call_correct. Qed.
Print Assumptions C07_call.

(* the caller's structure — states, transitions, initial states and every label set, cell by
   cell — is unchanged *)
Theorem C07_caller_unchanged : forall h c h' r, valid h (call_obj c) -> run_call h c = (h', r) ->
  valid h' (call_obj c) /\ abs h' (call_obj c) = abs h (call_obj c) /\
  (forall l, In l (locs (call_obj c)) -> hget h' l = hget h l) /\ r = pure_call h c.
Proof. exact run_call_caller_unchanged. Qed.
Print Assumptions C07_caller_unchanged.

(* so is every OTHER structure in the heap *)
Theorem C07_others_unchanged : forall h c h' r k2, valid h k2 -> run_call h c = (h', r) ->
  valid h' k2 /\ abs h' k2 = abs h k2.
Proof. exact run_call_others_unchanged. Qed.
Print Assumptions C07_others_unchanged.

(* the result depends only on the VALUE of the arguments, not on the rest of the heap *)
Theorem C07_depends_on_arguments_only : forall h1 h2 c h1' h2' r1 r2,
  abs h1 (call_obj c) = abs h2 (call_obj c) ->
  run_call h1 c = (h1', r1) -> run_call h2 c = (h2', r2) -> r1 = r2.
Proof. exact run_call_depends_on_value_only. Qed.
Print Assumptions C07_depends_on_arguments_only.

(* arbitrary finite sequences of calls (any mix of the six entry points, over any pool of
   structures and formulas): every result is what the pure model gives on the INITIAL heap —
   repeating a call or interleaving it with other calls changes nothing — and all structures
   are unchanged at the end *)
Theorem C07_history : forall h0 cs h' rs,
  (forall c, In c cs -> valid h0 (call_obj c)) -> run_calls h0 cs = (h', rs) ->
  rs = map (pure_call h0) cs /\
  (forall l, allocated h0 l -> hget h' l = hget h0 l) /\
  (forall k, valid h0 k -> valid h' k /\ abs h' k = abs h0 k).
Proof. exact history. Qed.
Print Assumptions C07_history.

(* sessions in which the CALLER also writes (it holds the label sets of its own structure:
   labels(s).add / discard, writing through labelling_function()): every call answers for the
   labelling as the caller has made it SO FAR ([spec_session] evaluates the pure model on the
   heap produced by the caller's writes alone), nothing a call did is visible afterwards, and
   every structure has at the end the value the caller gave it.  C07_history is the special
   case without writes.  A result remembered from an earlier call (a cache keyed by the
   structure object) cannot satisfy this: see the example below. *)
Theorem C07_session : forall h0 ss h' rs,
  (forall c, In (SCall c) ss -> valid h0 (call_obj c)) ->
  run_session h0 ss = (h', rs) ->
  rs = spec_session h0 ss /\
  (forall l, allocated (caller_heap h0 ss) l -> hget h' l = hget (caller_heap h0 ss) l) /\
  (forall k, valid h0 k -> valid h' k /\ abs h' k = abs (caller_heap h0 ss) k).
Proof. exact session. Qed.
Print Assumptions C07_session.

Theorem C07_session_extends_history : forall h cs,
  run_session h (map SCall cs) = run_calls h cs /\ spec_session h (map SCall cs) = map (pure_call h) cs.
Proof. intros h cs. split; [apply run_session_calls|apply spec_session_calls]. Qed.
Print Assumptions C07_session_extends_history.

(* the same query three times, the caller adding "p" to state 0 and then clearing state 1 in
   between: the answers follow the caller's labelling *)
Theorem C07_session_example :
  snd (run_session Examples.h0 SessionExamples.ss) = [Ok [1]; Ok [0; 1]; Ok [0]] /\
  spec_session Examples.h0 SessionExamples.ss = [Ok [1]; Ok [0; 1]; Ok [0]].
Proof. exact SessionExamples.relabelled_answers. Qed.
Print Assumptions C07_session_example.

(* the fairness argument as an OBJECT of the caller (Model/FairCells.v): containers built in
   the call expression (FNew, possibly at the address of a dead one), ONE container edited in
   place (FEdit), calls that name the container by its address, caller writes to label sets.
   Every call answers for the CONTENTS its container has at that moment, and for the
   labelling the caller has made so far; nothing else of the history is visible. *)
Theorem C07_fair_container_session : forall h0 fh ss h' rs,
  (forall q a, In (FCall q a) ss -> valid h0 (query_obj q)) ->
  run_fsession h0 fh ss = (h', rs) ->
  rs = spec_fsession h0 fh ss /\
  (forall l, allocated (fcaller_heap h0 fh ss) l -> hget h' l = hget (fcaller_heap h0 fh ss) l) /\
  (forall k, valid h0 k -> valid h' k /\ abs h' k = abs (fcaller_heap h0 fh ss) k).
Proof. exact fsession. Qed.
Print Assumptions C07_fair_container_session.

(* two sessions whose calls see the same contents - at whatever addresses - run alike *)
Theorem C07_answers_depend_on_contents : forall ss1 ss2 h fh1 fh2,
  lower fh1 ss1 = lower fh2 ss2 ->
  run_fsession h fh1 ss1 = run_fsession h fh2 ss2 /\ spec_fsession h fh1 ss1 = spec_fsession h fh2 ss2.
Proof. intros. split; [apply run_fsession_contents|apply spec_fsession_contents]; assumption. Qed.
Print Assumptions C07_answers_depend_on_contents.

(* a library that remembers the constraints per container ADDRESS agrees with the right one
   exactly as long as no address that a call has used is built at or edited again ... *)
Theorem C07_address_cache_harmless_without_reuse : forall ss h fh,
  no_reuse [] ss = true -> run_fsession_idcache h fh [] ss = run_fsession h fh ss.
Proof.
  intros ss h fh H. apply (idcache_ok_without_reuse ss [] h fh []); [exact H|].
  intros a F Hc. discriminate Hc.
Qed.
Print Assumptions C07_address_cache_harmless_without_reuse.

(* ... and is wrong as soon as one is: a temporary `[{0}]`, then a temporary `[set()]` at the
   same address (or the same list edited in place) - the second E G true must be empty *)
Theorem C07_address_cache_refuted :
  snd (run_fsession Examples.h0 [] FairCellExamples.temporaries) = [Ok [0; 1]; Ok []] /\
  snd (run_fsession Examples.h0 [] FairCellExamples.edited) = [Ok [0; 1]; Ok []] /\
  snd (run_fsession_idcache Examples.h0 [] [] FairCellExamples.temporaries) = [Ok [0; 1]; Ok [0; 1]] /\
  snd (run_fsession_idcache Examples.h0 [] [] FairCellExamples.edited) = [Ok [0; 1]; Ok [0; 1]] /\
  ~ (forall h fh ss, snd (run_fsession_idcache h fh [] ss) = spec_fsession h fh ss).
Proof.
  destruct FairCellExamples.temporaries_answers as (A & _ & B).
  destruct FairCellExamples.idcache_answers as (C & D).
  repeat split; auto. exact FairCellExamples.idcache_not_spec.
Qed.
Print Assumptions C07_address_cache_refuted.

(* non-vacuity: WITHOUT the clone (or with a shallow clone that shares the label cells) the
   frame statement is false, and a later call on the same structure returns a wrong answer *)
Theorem C07_noclone_refuted :
  ~ (forall h k f h' r, ctls_modelcheck_noclone_h h k f = (h', r) ->
       forall l, allocated h l -> hget h' l = hget h l).
Proof. exact Examples.ctls_noclone_not_frame. Qed.
Print Assumptions C07_noclone_refuted.

Theorem C07_shallow_clone_refuted :
  ~ (forall h k f h' r, ctls_modelcheck_shallow_h h k f = (h', r) ->
       forall l, allocated h l -> hget h' l = hget h l).
Proof. exact Examples.ctls_shallow_not_frame. Qed.
Print Assumptions C07_shallow_clone_refuted.

Theorem C07_noclone_history_refuted :
  let '(h1, _) := ctls_modelcheck_noclone_h Examples.h0 Examples.k0 Examples.f0 in
  let '(_, r2) := ctls_modelcheck_noclone_h h1 Examples.k0 Examples.f1 in
  r2 = Ok [0] /\ ctls_modelcheck (abs Examples.h0 Examples.k0) Examples.f1 = Ok [].
Proof. exact Examples.noclone_history_fails. Qed.
Print Assumptions C07_noclone_history_refuted.
