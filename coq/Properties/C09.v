(* C09 — printing then parsing a formula gives back the same formula
   (language.py / CTLS/language.py __str__; parser.py and the four */parser.py Lark grammars).
   Theorems only; proofs in Proofs/ParseP.v (lexing of printed strings, the deterministic
   parser model inverts the printer, fuel sufficiency) and Proofs/PrintP.v (injectivity),
   axiom-free.  Model/Parse.v models Lark's LALR(1) parser WITH its contextual lexer
   (contextual keyword resolution, operator-position prefix matching); it is tied to the real
   parsers by exhaustive differential testing (all word sequences of length <= 4 etc.).
   [good L f] = f is a formula of logic L, every atom matches [a-zA-Z_][a-zA-Z_0-9]* and is
   not a reserved word, n-ary and/or have >= 2 operands. *)
From PMC Require Import Spec.Lemmas Model.Parse Proofs.PrintP Proofs.ParseP.

(* PL, CTL* and LTL: the logic's own parser reads the logic's own printed form back *)
Theorem C09_roundtrip : forall L f, L <> CTL -> good L f = true -> parse_string L (print_std f) = Ok f.
Proof. exact C09_roundtrip_std. Qed.
Print Assumptions C09_roundtrip.

(* CTL formulas printed in CTL* notation are read back by the CTL parser and by the CTL* parser *)
Theorem C09_roundtrip_ctl : forall f, good CTL f = true ->
  parse_string CTL (print_std f) = Ok f /\ parse_string CTLS (print_std f) = Ok f.
Proof. intros f H. split; [exact (PMC.Proofs.ParseP.C09_roundtrip_ctl f H) | exact (C09_ctl_by_ctls f H)]. Qed.
Print Assumptions C09_roundtrip_ctl.

(* consequently two formulas with different trees never print identically — which the
   checkers rely on because they memoise and compare formulas by printed form; this holds
   for CTL's own compact notation too *)
Theorem C09_injective : forall L f g, good L f = true -> good L g = true -> print L f = print L g -> f = g.
Proof. exact print_inj. Qed.
Print Assumptions C09_injective.

Theorem C09_injective_std : forall f g, ident_atoms f = true -> ident_atoms g = true ->
  arity_ok f = true -> arity_ok g = true -> print_std f = print_std g -> f = g.
Proof. exact print_std_inj. Qed.
Print Assumptions C09_injective_std.

From Coq Require Import String.
(* CTL's compact notation (AX p) is NOT a round trip through the CTL parser: AX lexes as one
   identifier — the reason the property is stated for CTL* notation *)
Theorem C09_ctl_compact_refuted : exists f, good CTL f = true /\ parse_string CTL (print_ctl f) <> Ok f.
Proof.
  exists (FA (FX (FAtom "p"%string))).
  split; [vm_compute; reflexivity | exact ex_ctl_compact_not_roundtrip].
Qed.
Print Assumptions C09_ctl_compact_refuted.

(* non-vacuity *)
Example C09_example :
  let f := (FA (FU (FOr [FAtom "Ab"; FAtom "orb"; FNot (FAtom "Until")]) (FE (FG (FImp (FAtom "p") (FX (FAtom "AX")))))))%string in
  good CTLS f = true /\ print_std f = "A(((Ab or orb or not Until) U E(G((p --> X(AX))))))"%string /\
  parse_string CTLS (print_std f) = Ok f.
Proof. vm_compute. repeat split. Qed.
