(* C19 — every well-formed query returns a fresh set of the structure's own states.
   Model level: for every constructed structure and every formula of the called logic the model
   returns Ok (no internal error: in particular no fuel exhaustion, no RuntimeErr/KeyError
   analogue) a duplicate-free list of states of K; "owned by the caller" (mutating the result
   cannot change a later answer) is the heap-level theorem C07_history: results are values, later
   calls depend only on their own arguments.  Theorems only; proofs in CorollariesP.v,
   Corollaries2P.v, FairP.v, FairCtlsP.v, HeapP.v.
   PARTIAL by nature: heterogeneous Python state/label types (strings, tuples, mixed), the `set`
   type of the returned object and its identity are runtime facts monitored by the
   correspondence check. *)
From PMC Require Import Spec.Lemmas Model.Heap Proofs.KripkeP Proofs.CorollariesP Proofs.Corollaries2P
                        Proofs.FairP Proofs.FairCtlsP Proofs.HeapP.
Notation ident_atoms := PMC.Proofs.CTLSP.ident_atoms.

Theorem C19_ctl : forall K f, wf_kripke K -> ctl_state f = true ->
  exists S, ctl_modelcheck K f = Ok S /\ NoDup S /\ incl S (states K).
Proof. exact ctl_total_subset. Qed.
Print Assumptions C19_ctl.

Theorem C19_ltl : forall K g, wf_kripke K -> ltl_path g = true ->
  exists S, ltl_modelcheck K (FA g) = Ok S /\ NoDup S /\ incl S (states K).
Proof. exact ltl_total_subset. Qed.
Print Assumptions C19_ltl.

Theorem C19_ctls : forall K f, wf_K K -> ctls_state f = true -> ident_atoms f = true -> arity_ok f = true ->
  exists S, ctls_modelcheck K f = Ok S /\ NoDup S /\ incl S (states K).
Proof. exact ctls_total_subset_nodup. Qed.
Print Assumptions C19_ctls.

(* with fairness constraints, for EVERY F (and for CTL-star every atom naming: no hypothesis on atoms) *)
Theorem C19_ctl_fair : forall K f F, wf_K K -> ctl_state f = true ->
  exists S, ctl_modelcheck_fair K f F = Ok S /\ NoDup S /\ incl S (states K).
Proof. exact ctl_fair_no_error. Qed.
Print Assumptions C19_ctl_fair.

Theorem C19_ltl_fair : forall K g F, wf_K K -> ltl_path g = true ->
  exists S, ltl_modelcheck_fair K (FA g) F = Ok S /\ incl S (states K).
Proof. exact ltl_fair_no_error. Qed.
Print Assumptions C19_ltl_fair.

Theorem C19_ctls_fair : forall K f F, wf_K K -> ctls_state f = true ->
  exists S, ctls_modelcheck_fair K f F = Ok S /\ NoDup S /\ incl S (states K).
Proof. exact ctls_fair_no_error. Qed.
Print Assumptions C19_ctls_fair.

(* atoms that do not occur in K are no problem: the theorems above do not mention K's labels.
   Ownership: whatever the caller does with a returned value, every later call returns the pure
   function of its own arguments (heap model, any history of calls) *)
Theorem C19_later_calls_unaffected : forall h0 cs h' rs,
  (forall c, In c cs -> valid h0 (call_obj c)) -> run_calls h0 cs = (h', rs) ->
  rs = map (pure_call h0) cs.
Proof. intros h0 cs h' rs Hv Hr. exact (proj1 (history h0 cs h' rs Hv Hr)). Qed.
Print Assumptions C19_later_calls_unaffected.
