(* C04 — the three checkers agree with each other and obey the semantic laws.
   Corollaries of the exactness theorems C01 (CTL), C02 (LTL), C03 (CTL-star); theorems only,
   proofs in Proofs/CorollariesP.v and Proofs/Corollaries2P.v.  Results are compared as sets
   ([same_res r1 r2] = both are Ok lists with the same elements).  The text/object half of the
   property is C09 (the parser returns the printed formula's tree) and is checked on the
   implementation by the correspondence check. *)
From PMC Require Import Spec.Lemmas Proofs.KripkeP Proofs.CorollariesP Proofs.Corollaries2P.
Notation ident_atoms := PMC.Proofs.CTLSP.ident_atoms.

(* ---- a formula that belongs to more than one logic gets the same answer ---- *)
Theorem C04_three_checkers_agree : forall K g, wf_K K -> ident_atoms g = true -> arity_ok g = true ->
  ctl_state (FA g) = true -> ltl_path g = true ->
  exists S1 S2 S3, ctls_modelcheck K (FA g) = Ok S1 /\ ctl_modelcheck K (FA g) = Ok S2 /\
    ltl_modelcheck K (FA g) = Ok S3 /\ same_set S1 S2 /\ same_set S1 S3.
Proof. exact three_checkers_agree. Qed.
Print Assumptions C04_three_checkers_agree.

Theorem C04_ctls_ctl_agree : forall K f, wf_K K -> ident_atoms f = true -> arity_ok f = true ->
  ctl_state f = true -> same_res (ctls_modelcheck K f) (ctl_modelcheck K f).
Proof. exact ctls_ctl_agree. Qed.
Print Assumptions C04_ctls_ctl_agree.

Theorem C04_ctls_ltl_agree : forall K g, wf_K K -> ident_atoms g = true -> arity_ok g = true ->
  ltl_path g = true -> same_res (ctls_modelcheck K (FA g)) (ltl_modelcheck K (FA g)).
Proof. exact ctls_ltl_agree. Qed.
Print Assumptions C04_ctls_ltl_agree.

Theorem C04_ctl_ltl_agree : forall K g, wf_kripke K -> ctl_state (FA g) = true -> ltl_path g = true ->
  exists S1 S2, ctl_modelcheck K (FA g) = Ok S1 /\ ltl_modelcheck K (FA g) = Ok S2 /\ same_set S1 S2.
Proof. exact ctl_ltl_agree. Qed.
Print Assumptions C04_ctl_ltl_agree.

(* ---- Boolean laws: not = complement in K's states, and/or/implies = intersection / union /
   complement-union (CTL and CTL-star) ---- *)
Theorem C04_not_ctl : forall K f, wf_kripke K -> ctl_state f = true ->
  exists S Sf, ctl_modelcheck K (FNot f) = Ok S /\ ctl_modelcheck K f = Ok Sf /\
    forall s, In s S <-> In s (states K) /\ ~ In s Sf.
Proof. exact ctl_not_compl. Qed.
Print Assumptions C04_not_ctl.

Theorem C04_and_ctl : forall K f g, wf_kripke K -> ctl_state f = true -> ctl_state g = true ->
  exists S Sf Sg, ctl_modelcheck K (FAnd [f; g]) = Ok S /\ ctl_modelcheck K f = Ok Sf /\
    ctl_modelcheck K g = Ok Sg /\ forall s, In s S <-> In s (states K) /\ In s Sf /\ In s Sg.
Proof. exact ctl_and_inter. Qed.
Print Assumptions C04_and_ctl.

Theorem C04_or_ctl : forall K f g, wf_kripke K -> ctl_state f = true -> ctl_state g = true ->
  exists S Sf Sg, ctl_modelcheck K (FOr [f; g]) = Ok S /\ ctl_modelcheck K f = Ok Sf /\
    ctl_modelcheck K g = Ok Sg /\ forall s, In s S <-> In s (states K) /\ (In s Sf \/ In s Sg).
Proof. exact ctl_or_union. Qed.
Print Assumptions C04_or_ctl.

Theorem C04_imp_ctl : forall K f g, wf_kripke K -> ctl_state f = true -> ctl_state g = true ->
  exists S Sf Sg, ctl_modelcheck K (FImp f g) = Ok S /\ ctl_modelcheck K f = Ok Sf /\
    ctl_modelcheck K g = Ok Sg /\ forall s, In s S <-> In s (states K) /\ (~ In s Sf \/ In s Sg).
Proof. exact ctl_imp_law. Qed.
Print Assumptions C04_imp_ctl.

Theorem C04_not_ctls : forall K f, wf_K K -> ctls_state f = true -> ident_atoms f = true -> arity_ok f = true ->
  exists S Sf, ctls_modelcheck K (FNot f) = Ok S /\ ctls_modelcheck K f = Ok Sf /\
    forall s, In s S <-> In s (states K) /\ ~ In s Sf.
Proof. exact ctls_not_compl. Qed.
Print Assumptions C04_not_ctls.

Theorem C04_and_ctls : forall K f g, wf_K K -> ctls_ok f -> ctls_ok g ->
  exists S Sf Sg, ctls_modelcheck K (FAnd [f; g]) = Ok S /\ ctls_modelcheck K f = Ok Sf /\
    ctls_modelcheck K g = Ok Sg /\ forall s, In s S <-> In s (states K) /\ In s Sf /\ In s Sg.
Proof. exact ctls_and_inter. Qed.
Print Assumptions C04_and_ctls.

Theorem C04_or_ctls : forall K f g, wf_K K -> ctls_ok f -> ctls_ok g ->
  exists S Sf Sg, ctls_modelcheck K (FOr [f; g]) = Ok S /\ ctls_modelcheck K f = Ok Sf /\
    ctls_modelcheck K g = Ok Sg /\ forall s, In s S <-> In s (states K) /\ (In s Sf \/ In s Sg).
Proof. exact ctls_or_union. Qed.
Print Assumptions C04_or_ctls.

Theorem C04_imp_ctls : forall K f g, wf_K K -> ctls_ok f -> ctls_ok g ->
  exists S Sf Sg, ctls_modelcheck K (FImp f g) = Ok S /\ ctls_modelcheck K f = Ok Sf /\
    ctls_modelcheck K g = Ok Sg /\ forall s, In s S <-> In s (states K) /\ (~ In s Sf \/ In s Sg).
Proof. exact ctls_imp_law. Qed.
Print Assumptions C04_imp_ctls.

(* ---- A g and not E not g coincide ---- *)
Theorem C04_A_not_E_not_ctls : forall K g, wf_K K -> ident_atoms g = true -> arity_ok g = true ->
  same_res (ctls_modelcheck K (FA g)) (ctls_modelcheck K (FNot (FE (FNot g)))).
Proof. exact ctls_A_not_E_not. Qed.
Print Assumptions C04_A_not_E_not_ctls.

Theorem C04_AX_EX : forall K f, wf_kripke K -> ctl_state f = true ->
  same_res (ctl_modelcheck K (FA (FX f))) (ctl_modelcheck K (FNot (FE (FX (FNot f))))).
Proof. exact AX_not_EX_not. Qed.
Print Assumptions C04_AX_EX.

Theorem C04_AF_EG : forall K f, wf_kripke K -> ctl_state f = true ->
  same_res (ctl_modelcheck K (FA (FF f))) (ctl_modelcheck K (FNot (FE (FG (FNot f))))).
Proof. exact AF_not_EG_not. Qed.
Print Assumptions C04_AF_EG.

Theorem C04_AG_EF : forall K f, wf_kripke K -> ctl_state f = true ->
  same_res (ctl_modelcheck K (FA (FG f))) (ctl_modelcheck K (FNot (FE (FF (FNot f))))).
Proof. exact AG_not_EF_not. Qed.
Print Assumptions C04_AG_EF.

(* ---- fixpoint expansion laws ---- *)
Theorem C04_EU_expansion : forall K, wf_kripke K -> forall f g, ctl_state f = true -> ctl_state g = true ->
  same_res (ctl_modelcheck K (FE (FU f g))) (ctl_modelcheck K (FOr [g; FAnd [f; FE (FX (FE (FU f g)))]])).
Proof. exact EU_expansion. Qed.
Print Assumptions C04_EU_expansion.

Theorem C04_AU_expansion : forall K, wf_kripke K -> forall f g, ctl_state f = true -> ctl_state g = true ->
  same_res (ctl_modelcheck K (FA (FU f g))) (ctl_modelcheck K (FOr [g; FAnd [f; FA (FX (FA (FU f g)))]])).
Proof. exact AU_expansion. Qed.
Print Assumptions C04_AU_expansion.

Theorem C04_EG_expansion : forall K, wf_kripke K -> forall f, ctl_state f = true ->
  same_res (ctl_modelcheck K (FE (FG f))) (ctl_modelcheck K (FAnd [f; FE (FX (FE (FG f)))])).
Proof. exact EG_expansion. Qed.
Print Assumptions C04_EG_expansion.

Theorem C04_AG_expansion : forall K, wf_kripke K -> forall f, ctl_state f = true ->
  same_res (ctl_modelcheck K (FA (FG f))) (ctl_modelcheck K (FAnd [f; FA (FX (FA (FG f)))])).
Proof. exact AG_expansion. Qed.
Print Assumptions C04_AG_expansion.

Theorem C04_EF_expansion : forall K, wf_kripke K -> forall f, ctl_state f = true ->
  same_res (ctl_modelcheck K (FE (FF f))) (ctl_modelcheck K (FOr [f; FE (FX (FE (FF f)))])).
Proof. exact EF_expansion. Qed.
Print Assumptions C04_EF_expansion.

Theorem C04_AF_expansion : forall K, wf_kripke K -> forall f, ctl_state f = true ->
  same_res (ctl_modelcheck K (FA (FF f))) (ctl_modelcheck K (FOr [f; FA (FX (FA (FF f)))])).
Proof. exact AF_expansion. Qed.
Print Assumptions C04_AF_expansion.
