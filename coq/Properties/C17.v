(* C17 — OBDD operations compute the right function, reduced and ordered
   (BDD/BDD.py apply / restrict / __invert__ / variables, BDD/OBDD.py, BDD/ordering.py).
   Theorems only; proofs in Proofs/BddP.v (axiom-free).  [wf_store] = reduced store (children
   distinct, hash-consed), [ordered O s n] = every node reachable from n tests a variable of O
   strictly earlier than the variables of its children. *)
From PMC Require Import Spec.Lemmas Model.BddCache Proofs.BddP Proofs.BddCacheP.

(* f op g for ANY binary Boolean operator (in particular &, |, ^): never an error on two
   diagrams of the same ordering, the result denotes the pointwise combination on every
   assignment, is reduced (store invariant kept) and ordered; old nodes are untouched *)
Theorem C17_apply : forall (O : list var) (op : bool -> bool -> bool) fuel s a b,
  wf_store s -> NoDup O -> ordered O s a -> ordered O s b -> live s a = true -> live s b = true ->
  nfuel a + nfuel b <= fuel ->
  exists s' n, apply fuel O op s a b = Ok (s', n) /\ wf_store s' /\ extends s s' /\
    live s' n = true /\ ordered O s' n /\
    (forall x, below O s x a -> below O s x b -> below O s' x n) /\
    (forall env, denote s' n env = op (denote s a env) (denote s b env)).
Proof. exact PMC.Proofs.BddP.C17_apply. Qed.
Print Assumptions C17_apply.

Theorem C17_obdd_apply : forall op s ra rb O, wf_store s -> ordered O s ra -> ordered O s rb ->
  live s ra = true -> live s rb = true ->
  exists s' n, obdd_apply op s (ra, O) (rb, O) = Ok (s', (n, O)) /\ wf_store s' /\ extends s s' /\
    live s' n = true /\ ordered O s' n /\
    (forall env, denote s' n env = op (denote s ra env) (denote s rb env)).
Proof. exact obdd_apply_spec. Qed.
Print Assumptions C17_obdd_apply.

(* ~f *)
Theorem C17_neg : forall s ra O, wf_store s -> ordered O s ra -> live s ra = true ->
  exists s' n, obdd_neg s (ra, O) = Ok (s', (n, O)) /\ wf_store s' /\ extends s s' /\
    live s' n = true /\ ordered O s' n /\ (forall env, denote s' n env = negb (denote s ra env)).
Proof. exact obdd_neg_spec. Qed.
Print Assumptions C17_neg.

(* f.restrict(v, b) is the cofactor *)
Theorem C17_restrict : forall s ra O v b, wf_store s -> ordered O s ra -> live s ra = true ->
  exists s' n, obdd_restrict s (ra, O) v b = Ok (s', (n, O)) /\ wf_store s' /\ extends s s' /\
    live s' n = true /\ ordered O s' n /\
    (forall env, denote s' n env = denote s ra (env_upd env v b)).
Proof. exact obdd_restrict_spec. Qed.
Print Assumptions C17_restrict.

(* variables() is exactly the support of the denoted function *)
Theorem C17_support : forall (O : list var) s a, wf_store s -> NoDup O -> ordered O s a -> live s a = true ->
  forall v, In v (variables s a) <->
            exists env, denote s a env <> denote s a (env_upd env v (negb (env v))).
Proof. exact variables_support. Qed.
Print Assumptions C17_support.

(* different orderings, or root variables not comparable in the ordering (e.g. a variable
   outside it): RuntimeError *)
Theorem C17_ordering_mismatch : forall op s (a b : nat * ordering), snd a <> snd b -> obdd_apply op s a b = RuntimeErr.
Proof. exact obdd_apply_mismatch. Qed.
Print Assumptions C17_ordering_mismatch.

Theorem C17_incomparable : forall f O op s a b, is_terminal a = false -> is_terminal b = false ->
  nvar s a <> nvar s b -> in_order O (nvar s a) (nvar s b) = false -> in_order O (nvar s b) (nvar s a) = false ->
  apply (S f) O op s a b = RuntimeErr.
Proof. exact C17_apply_err. Qed.
Print Assumptions C17_incomparable.

(* the ordering check used by OBDD(node, ordering) decides [ordered] *)
Theorem C17_respects_ordering : forall s n O, wf_store s -> live s n = true ->
  (respects_ord (nfuel n) O s n = Ok true <-> ordered O s n).
Proof. intros s n O. apply respects_ord_spec. Qed.
Print Assumptions C17_respects_ordering.

(* The CODE threads memo dictionaries (r_cache) through apply / restrict / ~ ; the model above
   has none.  Model/BddCache.v mirrors the cached code (lookup first, key without the operator,
   one fresh cache per top-level call) and returns EXACTLY the same store and node: the memo is
   a pure optimisation — a theorem, not an assumption. *)
Theorem C17_apply_cache : forall O op fuel s a b, wf_store s -> live s a = true -> live s b = true ->
  nfuel a + nfuel b <= fuel -> apply_top fuel O op s a b = apply fuel O op s a b.
Proof. exact apply_top_eq_gen. Qed.
Print Assumptions C17_apply_cache.

Theorem C17_neg_cache : forall fuel s a, wf_store s -> live s a = true -> nfuel a <= fuel ->
  neg_top fuel s a = neg fuel s a.
Proof. exact neg_top_eq. Qed.
Print Assumptions C17_neg_cache.

Theorem C17_restrict_cache : forall fuel s a v b, wf_store s -> live s a = true -> nfuel a <= fuel ->
  cofactor_top fuel s a v b = cofactor fuel s a v b.
Proof. exact cofactor_top_eq. Qed.
Print Assumptions C17_restrict_cache.

(* ... and it matters that a cache never outlives one top-level call: re-using it for another
   operator gives a wrong node (so such a bug in the code would be visible in the model) *)
Theorem C17_cache_reuse_refuted : exists s1 c1,
  apply_c 10 ex_O andb ex_s0 [] 2 3 = Ok (s1, c1, 4) /\
  erase2 (apply_c 10 ex_O orb s1 c1 2 3) = Ok (s1, 4) /\
  apply 10 ex_O orb s1 2 3 = Ok ((5, (0, 3, 1)) :: s1, 5) /\
  denote s1 4 (fun v => Nat.eqb v 0) = false /\ denote ((5, (0, 3, 1)) :: s1) 5 (fun v => Nat.eqb v 0) = true.
Proof. exact cache_reuse_across_operators_wrong. Qed.
Print Assumptions C17_cache_reuse_refuted.

(* non-vacuity: (a & b) ^ (b | c) under the ordering [a; b; c] *)
Example C17_example :
  match obdd_parse [] (BAnd (BVar 0) (BVar 1)) [0; 1; 2] with
  | Ok (s1, x) => match obdd_parse s1 (BOr (BVar 1) (BVar 2)) [0; 1; 2] with
                  | Ok (s2, y) => match obdd_apply xorb s2 x y with
                                  | Ok (s3, z) => map (fun m => denote s3 (fst z) (fun v => Nat.testbit m v)) [0; 1; 2; 3; 4; 5; 6; 7]
                                                  = [false; false; true; false; true; true; true; false]
                                                  /\ variables s3 (fst z) <> []
                                  | _ => False end
                  | _ => False end
  | _ => False end.
Proof. vm_compute. split; [reflexivity|discriminate]. Qed.
