(* C14 — Kripke structures are always total, fully labelled, and copy faithfully
   (kripke.py, after fix F2).  Theorems only; proofs in Proofs/KripkeP.v (axiom-free),
   instantiated here with the graph-construction lemmas of Proofs/GraphP.v. *)
From PMC Require Import Spec.Lemmas Proofs.KripkeP.
From PMC Require Proofs.GraphP.
Notation G_mk := PMC.Proofs.GraphP.mk_graph_spec.
Notation G_edges := PMC.Proofs.GraphP.edges_spec.

(* Kripke(S,S0,R,L) succeeds exactly when every state (element of S or endpoint of a
   transition) has an outgoing transition; otherwise RuntimeError *)
Theorem C14_ctor : forall St St0 R L,
  ((exists K, mk_kripke St St0 R L = Ok K) <->
   (forall v, (In v St \/ exists y, In (v, y) R \/ In (y, v) R) -> exists d, In (v, d) R)) /\
  ((exists K, mk_kripke St St0 R L = Ok K) \/ mk_kripke St St0 R L = RuntimeErr).
Proof.
  intros. split; [exact (mk_kripke_ok_iff G_mk St St0 R L) | exact (mk_kripke_ok_or_err St St0 R L)].
Qed.
Print Assumptions C14_ctor.

(* a constructed structure: well-formed and total, states = S ∪ endpoints(R), exactly the
   transitions R, initial states = S0 ∩ states, every state has a label set (the given one,
   empty if unspecified), no labels for non-states *)
Theorem C14_shape : forall St St0 R L K, mk_kripke St St0 R L = Ok K ->
  wf_kripke K /\
  (forall x, In x (states K) <-> In x St \/ exists y, In (x, y) R \/ In (y, x) R) /\
  (forall x y, edge (kg K) x y <-> In (x, y) R) /\
  (forall x, In x (kinit K) <-> In x St0 /\ In x (states K)) /\
  (forall s a, In s (states K) -> (labelled K s a <-> In a (lookup_lab L s))) /\
  NoDup (map fst (klab K)) /\ map fst (klab K) = states K /\ (forall s, NoDup (labels_of K s)).
Proof. intros St St0 R L K. exact (mk_kripke_shape G_mk St St0 R L K). Qed.
Print Assumptions C14_shape.

(* labels(s) / next(s) of a non-state raise RuntimeError *)
Theorem C14_nonstate : forall K s, ~ In s (states K) ->
  labels_r K s = RuntimeErr /\ knext_r K s = RuntimeErr.
Proof. intros K s H. split; [exact (labels_r_err K s H) | exact (knext_r_err K s H)]. Qed.
Print Assumptions C14_nonstate.

Theorem C14_state : forall K s, In s (states K) ->
  labels_r K s = Ok (labels_of K s) /\ knext_r K s = Ok (succs (kg K) s).
Proof. intros K s H. split; [exact (labels_r_ok K s H) | exact (knext_r_ok K s H)]. Qed.
Print Assumptions C14_state.

(* clone(): same states, transitions, initial states and labelling *)
Theorem C14_clone : forall K, wf_K K ->
  exists K', kclone K = Ok K' /\ wf_K K' /\
    (forall x, In x (states K') <-> In x (states K)) /\
    (forall x y, edge (kg K') x y <-> edge (kg K) x y) /\
    (forall x, In x (kinit K') <-> In x (kinit K)) /\
    (forall s a, labelled K' s a <-> labelled K s a).
Proof. intros K. exact (kclone_spec G_mk G_edges K). Qed.
Print Assumptions C14_clone.

(* get_substructure(V): succeeds exactly when the induced transitions on V are total
   (otherwise RuntimeError); then exactly the induced transitions, the same labels on the
   retained states, the retained initial states *)
Theorem C14_substructure : forall K, wf_K K -> forall V,
  ((exists K', substructure K V = Ok K') <->
   (forall v, In v V -> In v (states K) -> exists d, In d V /\ edge (kg K) v d)) /\
  (forall K', substructure K V = Ok K' ->
     wf_K K' /\
     (forall x, In x (states K') <-> In x V /\ In x (states K)) /\
     (forall x y, edge (kg K') x y <-> edge (kg K) x y /\ In x V /\ In y V) /\
     (forall s a, In s (states K') -> (labelled K' s a <-> labelled K s a)) /\
     (forall x, In x (kinit K') <-> In x (kinit K) /\ In x V)) /\
  ((exists K', substructure K V = Ok K') \/ substructure K V = RuntimeErr).
Proof. intros K. exact (substructure_spec G_mk G_edges K). Qed.
Print Assumptions C14_substructure.

(* the invariant wf_K holds of every constructed structure *)
Theorem C14_constructed_wf : forall St St0 R L K, mk_kripke St St0 R L = Ok K -> wf_K K.
Proof. intros St St0 R L K. exact (mk_kripke_wf_K G_mk St St0 R L K). Qed.
Print Assumptions C14_constructed_wf.

From Coq Require Import String.
(* regression witness for fix F2 and non-vacuity: the label of the retained state survives
   get_substructure (the pre-fix definition took the labels from the successor map; see
   Proofs/KripkeP.v substructure_old_loses_labels) *)
Example C14_F2_regression :
  rbind (mk_kripke [0; 1] [0] [(0, 0); (0, 1); (1, 1)] [(0, ["p"]); (1, ["q"])]%string)
        (fun K => rmap (fun K' => (labels_of K 0, labels_of K' 0, states K')) (substructure K [0]))
  = Ok (["p"], ["p"], [0])%string.
Proof. vm_compute. reflexivity. Qed.
Example C14_nontotal_rejected :
  mk_kripke [0; 1] [] [(0, 1)] [] = RuntimeErr /\
  rbind (mk_kripke [0; 1] [] [(0, 1); (1, 0)] []) (fun K => rmap states (substructure K [0])) = RuntimeErr.
Proof. vm_compute. split; reflexivity. Qed.

(* ---------------------------------------------------------------------------------------- *)
(* "no label set shared with the original", on the heap model                                *)
(* ---------------------------------------------------------------------------------------- *)
(* Label sets are mutable objects; on pure values "shared" cannot be said.  Model/Heap.v +
   Model/HeapKripkeOps.v: a Kripke object maps every state to the CELL holding its label set;
   the constructor, clone() and get_substructure(V) all end in `Kripke(S, S0, R, L)`, which
   allocates a new cell per state.  Proofs in Proofs/HeapKripkeOpsP.v (axiom-free). *)
From PMC Require Import Model.Heap Model.HeapKripkeOps Proofs.HeapP Proofs.HeapKripkeOpsP.

(* the constructed object has the pure value, is valid (one cell per state, no two states
   sharing a cell) and lives in cells that did not exist: nothing of the caller's L is kept *)
Theorem C14_ctor_fresh_label_sets : forall h St St0 R L h1 kc, mk_kripke_h h St St0 R L = (h1, Ok kc) ->
  mk_kripke St St0 R L = Ok (abs h1 kc) /\ valid h1 kc /\
  (forall l, In l (locs kc) -> ~ allocated h l) /\
  (forall l, allocated h l -> hget h1 l = hget h l).
Proof. exact mk_kripke_h_spec. Qed.
Print Assumptions C14_ctor_fresh_label_sets.

(* clone(): no label set of the clone is one of the original's; a write into a label set of
   either side leaves the value of the other side alone *)
Theorem C14_clone_no_shared_label_set : forall h k h1 kc, valid h k -> clone_h h k = (h1, Ok kc) ->
  abs h1 k = abs h k /\
  (forall l c, In l (locs kc) -> abs (write_label_h h1 l c) k = abs h k) /\
  (forall l c, In l (locs k) -> abs (write_label_h h1 l c) kc = abs h1 kc) /\
  (forall l, In l (locs kc) -> ~ In l (locs k)).
Proof. exact clone_independent_h. Qed.
Print Assumptions C14_clone_no_shared_label_set.

(* get_substructure(V): the same, and its value is the pure one; when it raises nothing was
   allocated or written *)
Theorem C14_substructure_no_shared_label_set : forall h k V h1 kc, valid h k -> substructure_h h k V = (h1, Ok kc) ->
  substructure (abs h k) V = Ok (abs h1 kc) /\ valid h1 kc /\
  abs h1 k = abs h k /\
  (forall l c, In l (locs kc) -> abs (write_label_h h1 l c) k = abs h k) /\
  (forall l c, In l (locs k) -> abs (write_label_h h1 l c) kc = abs h1 kc) /\
  (forall l, In l (locs kc) -> ~ In l (locs k)).
Proof.
  intros h k V h1 kc Hv H.
  destruct (substructure_h_spec _ _ _ _ _ H) as (A & B & _).
  destruct (substructure_independent _ _ _ _ _ Hv H) as (C & D & E & F).
  split; [exact A|]. split; [exact B|]. split; [exact C|]. split; [exact D|]. split; [exact E|exact F].
Qed.
Print Assumptions C14_substructure_no_shared_label_set.

Theorem C14_substructure_raises_cleanly : forall h k V h1 rc, substructure_h h k V = (h1, rc) ->
  (forall kc, rc <> Ok kc) -> h1 = h /\ forall K, substructure (abs h k) V <> Ok K.
Proof. exact substructure_h_err. Qed.
Print Assumptions C14_substructure_raises_cleanly.

(* non-vacuity: a clone that installs a new dict over the SAME label sets
   (`replace_labelling_function(dict(self._labels))`) violates it *)
Theorem C14_sharing_clone_refuted :
  ~ (forall h k h1 kc l c, valid h k -> clone_sharing_labels_h h k = (h1, Ok kc) ->
       In l (locs kc) -> abs (write_label_h h1 l c) k = abs h k).
Proof. exact KExamples.sharing_clone_refutes_independence. Qed.
Print Assumptions C14_sharing_clone_refuted.

(* ---------------------------------------------------------------------------------- *)
From Coq Require Import List String. Import ListNotations.
From PMC Require Import Spec.GraphSpec Spec.Semantics Spec.Lemmas Model.Kripke Model.GraphOps Proofs.KripkeP.
From PMC Require Import Model.KripkeOps Proofs.KripkeOpsP.

(* structures edited after construction (Model/KripkeOps.v; fix 8bf41ed): any sequence of
   Kripke.add_node / Kripke.add_edge calls - the caller catching the documented RuntimeError
   and going on - keeps ONE LABEL ENTRY PER STATE: `self._labels[s]` cannot raise for a state,
   old states keep their labels, new states carry none, the initial states are untouched and
   the graph is the one DiGraph.add_node / add_edge build (C13_mutator_histories) *)
Theorem C14_added_states_are_labelled : forall K ops,
  wf_graph (kg K) -> map fst (klab K) = states K ->
  let K' := run_kops K ops in
  map fst (klab K') = states K' /\
  (forall s, In s (states K') -> label_entry K' s = Ok (labels_of K s)) /\
  (forall s, labels_of K' s = labels_of K s) /\
  (forall s, In s (states K) -> In s (states K')) /\
  kinit K' = kinit K /\ kg K' = fst (run_gops (kg K) ops) /\ wf_graph (kg K').
Proof.
  intros K ops WF HL K'. subst K'.
  destruct (run_kops_spec ops K WF HL) as (A & B & C & D & M & L).
  split; [exact B|]. split; [intros s Hs; apply grown_label_entry; assumption|].
  split; [exact L|]. split; [exact M|]. split; [exact C|]. split; [exact D|exact A].
Qed.
Print Assumptions C14_added_states_are_labelled.

(* ... so a grown structure that is total again satisfies the invariant of constructed
   structures, and every theorem about constructed structures (C01-C07, C15, C19) applies *)
Theorem C14_grown_structure_is_wellformed : forall K ops,
  wf_K K -> total (run_kops K ops) -> wf_K (run_kops K ops).
Proof. exact grown_wf_K. Qed.
Print Assumptions C14_grown_structure_is_wellformed.

(* the behaviour before the fix - the graph grows, the labelling does not - loses the entry
   of the first new state: K = Kripke(R=[(0,1),(1,0)], L={0:{p},1:{p}}); add_edge(1,2);
   add_edge(2,2) is total, and `self._labels[2]` raises *)
Theorem C14_unlabelled_growth_refuted :
  wf_K KripkeOpsExamples.K0 /\
  run_kops KripkeOpsExamples.K0 KripkeOpsExamples.ops =
    mkK [(0, [1]); (1, [0; 2]); (2, [2])] [] [(0, ["p"%string]); (1, ["p"%string]); (2, [])] /\
  label_entry (run_kops KripkeOpsExamples.K0 KripkeOpsExamples.ops) 2 = Ok [] /\
  label_entry (run_kops_nolabel KripkeOpsExamples.K0 KripkeOpsExamples.ops) 2 = RuntimeErr /\
  ~ (forall K o K', map fst (klab K) = states K -> kapply_nolabel K o = Ok K' -> map fst (klab K') = states K').
Proof.
  destruct KripkeOpsExamples.grown as (A & B & C & _).
  split; [exact KripkeOpsExamples.K0_wf|]. split; [exact A|]. split; [exact B|]. split; [exact C|].
  exact KripkeOpsExamples.nolabel_not_complete.
Qed.
Print Assumptions C14_unlabelled_growth_refuted.
