(* C02 *) From PMC Require Import Spec.Lemmas.
