(* C02 — LTL model checking returns exactly the states all of whose paths satisfy g
   (LTL/model_checking.py after fix F1; model Model/LTLmc.v).  Theorems only; the tableau
   proof (closure/atom consistency, soundness through the generalised-Buechi lemma,
   completeness by a choice-free pigeonhole over atom indices) is in Proofs/LTLP.v,
   instantiated in Proofs/Assemble.v. *)
From PMC Require Import Spec.Lemmas Model.Memo Proofs.Assemble.
From PMC Require Proofs.PrintP Proofs.MemoP.
From PMC Require Proofs.LTLP Proofs.GraphP Proofs.SccP Proofs.InfPath Proofs.Corollaries2P.

(* For EVERY well-formed total Kripke structure and EVERY LTL formula A g: the model
   returns exactly the states s such that every infinite path from s satisfies g. *)
Theorem C02_exact : forall K g, wf_kripke K -> ltl_path g = true ->
  exists S, ltl_modelcheck K (FA g) = Ok S /\
            forall s, In s S <-> (In s (states K) /\
                                  forall p, is_path K p -> p 0 = s -> sat K p g).
Proof. exact ltl_exact. Qed.
Print Assumptions C02_exact.

(* the tableau core: the E-path check returns exactly the states from which SOME path
   satisfies a formula in restricted normal form *)
Theorem C02_tableau : forall K p, wf_kripke K -> tableau_ok p = true -> PMC.Proofs.LTLP.normal p ->
  forall s, In s (checkE_path K p) <->
            In s (states K) /\ exists pi, is_path K pi /\ pi 0 = s /\ sat K pi p.
Proof.
  exact (PMC.Proofs.LTLP.checkE_path_spec PMC.Proofs.GraphP.reach_exact PMC.Proofs.GraphP.reversed_spec
           PMC.Proofs.SccP.scc_correct PMC.Proofs.InfPath.gba).
Qed.
Print Assumptions C02_tableau.

(* equivalently: a state is excluded exactly when some ULTIMATELY PERIODIC path from it
   (a lasso  pre . cyc^omega) satisfies  not g *)
Theorem C02_lasso : forall K g, wf_kripke K -> ltl_path g = true ->
  forall S, ltl_modelcheck K (FA g) = Ok S -> forall s, In s (states K) ->
  (~ In s S <-> exists pre cyc, cyc <> [] /\ is_path K (PMC.Proofs.InfPath.lasso pre cyc) /\
                  PMC.Proofs.InfPath.lasso pre cyc 0 = s /\
                  sat K (PMC.Proofs.InfPath.lasso pre cyc) (FNot g)).
Proof. exact PMC.Proofs.Corollaries2P.ltl_excluded_iff_lasso. Qed.
Print Assumptions C02_lasso.

(* The CODE keeps closure and tableau atoms as Python sets of formula objects, i.e. every
   membership test is by PRINTED form.  Model/Memo.v models exactly that
   ([ltl_modelcheck_print]); over identifier atoms it returns the same list as the model above *)
Theorem C02_print : forall K g, ltl_path g = true -> PMC.Proofs.PrintP.ident_atoms g = true -> arity_ok g = true ->
  ltl_modelcheck_print K (FA g) = ltl_modelcheck K (FA g).
Proof. exact PMC.Proofs.MemoP.ltl_print_sound. Qed.
Print Assumptions C02_print.

(* known finding KF-print-a for LTL: A(X(p) and not AtomicProposition "X(p)") on the p-loop *)
Theorem C02_print_refuted : exists K g, ltl_path g = true /\ ltl_modelcheck_print K (FA g) <> ltl_modelcheck K (FA g).
Proof. exact PMC.Proofs.MemoP.ltl_print_refuted. Qed.
Print Assumptions C02_print_refuted.

(* only formulas of the form A g with g quantifier-free are accepted *)
Theorem C02_guard : forall K f, ltl_state f = false -> ltl_modelcheck K f = TypeErr.
Proof.
  intros K f H. destruct f; try reflexivity. simpl in H. simpl. rewrite H. reflexivity.
Qed.
Print Assumptions C02_guard.

(* non-vacuity *)
From Coq Require Import String.
Example C02_example :
  let K := mkK [(0, [0; 1]); (1, [2]); (2, [1])] [] [(0, ["p"]); (1, ["q"]); (2, [])]%string in
  ltl_modelcheck K (FA (FG (FAtom "p")))%string = Ok [] /\
  ltl_modelcheck K (FA (FU (FAtom "p") (FAtom "q")))%string = Ok [1] /\
  ltl_modelcheck K (FA (FG (FF (FAtom "q"))))%string = Ok [1; 2] /\
  ltl_modelcheck K (FA (FOr [FG (FAtom "p"); FF (FG (FImp (FAtom "q") (FX (FNot (FAtom "q")))))]))%string = Ok [0; 1; 2].
Proof. vm_compute. repeat split. Qed.
