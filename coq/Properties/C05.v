(* C05 — rewriting to the restricted syntax and LNot preserve meaning
   (language.py LNot; CTLS/language.py, CTL/language.py, LTL/language.py
   get_equivalent_restricted_formula).  Theorems only; proofs in Proofs/RewriteP.v.
   [sat] is the path semantics of doc/source/logics.rst (Spec/Semantics.v); the
   equivalences hold on EVERY Kripke structure and path, not only on finite total ones. *)
From PMC Require Import Spec.Lemmas Proofs.RewriteP.

(* LNot f is equivalent to not f ... *)
Theorem C05_LNot_sem : forall K p f, sat K p (LNot f) <-> ~ sat K p f.
Proof. exact LNot_sem. Qed.
Print Assumptions C05_LNot_sem.

(* ... and never begins with two negations *)
Theorem C05_LNot_head : forall f, starts_with_two_nots (LNot f) = false.
Proof. exact LNot_head. Qed.
Print Assumptions C05_LNot_head.

(* CTL* (and LTL path) formulas: result over {true, false, atoms, not, or, X, U, E} ... *)
Theorem C05_restrict_alphabet : forall f, restricted (restrict f) = true.
Proof. exact restrict_restricted. Qed.
Print Assumptions C05_restrict_alphabet.

(* ... satisfied by exactly the same paths of every structure *)
Theorem C05_restrict_sem : forall K p f, sat K p (restrict f) <-> sat K p f.
Proof. exact restrict_sem. Qed.
Print Assumptions C05_restrict_sem.

(* LTL: A rho ~> A rho' with rho' in the restricted LTL alphabet {not, or, X, U} (no
   quantifier is introduced, the tableau accepts it) and the same meaning *)
Theorem C05_restrict_ltl : forall g, ltl_path g = true ->
  restrict_ltl (FA g) = FA (restrict g) /\ ltl_path (restrict g) = true /\
  tableau_ok (restrict g) = true /\
  forall K p, sat K p (restrict_ltl (FA g)) <-> sat K p (FA g).
Proof.
  intros g Hg. split; [reflexivity|]. split; [exact (restrict_ltl_path g Hg)|].
  split; [exact (restrict_tableau_ok g Hg)|].
  intros K p. simpl. split; intros H q Hq H0; apply (restrict_sem K q g); apply H; assumption.
Qed.
Print Assumptions C05_restrict_ltl.

(* CTL: every CTL state formula is rewritten (never the final `raise TypeError`) into the
   alphabet {true, false, atoms, not, or, EX, EU, EG}, stays a CTL state formula, and has
   the same meaning on every structure and path *)
Theorem C05_restrict_ctl : forall f, ctl_state f = true ->
  exists r, restrict_ctl f = Some r /\ restricted_ctl r = true /\ ctl_state r = true /\
            height r <= 3 * height f /\
            forall K p, sat K p r <-> sat K p f.
Proof. exact restrict_ctl_spec. Qed.
Print Assumptions C05_restrict_ctl.

Theorem C05_restrict_ctl_reject : forall f, ctl_state f = false -> restrict_ctl f = None.
Proof. exact restrict_ctl_none. Qed.
Print Assumptions C05_restrict_ctl_reject.

(* non-vacuity *)
From Coq Require Import String.
Example C05_example :
  restrict_ctl (FA (FU (FAtom "p") (FAnd [FAtom "q"; FE (FR (FAtom "p") (FBool false))])))%string <> None /\
  restrict (FG (FImp (FAtom "p") (FF (FAtom "q"))))%string =
    FNot (FU (FBool true) (FNot (FOr [FNot (FAtom "p"); FU (FBool true) (FAtom "q")])))%string.
Proof. vm_compute. split; [discriminate|reflexivity]. Qed.
