(* C05 *) From PMC Require Import Spec.Lemmas.
