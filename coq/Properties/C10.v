(* C10 — parsers reject text outside their language
   (parser.py Parser.__call__, the four Lark grammars).  PARTIAL: the theorems below are about
   the Gallina model of the parsers (Model/Parse.v: lexer + contextual keyword resolution +
   deterministic recursive descent), which is tied to Lark by exhaustive differential testing;
   the exception CLASS (UnexpectedToken / UnexpectedCharacters) and its .pos are produced by
   Lark and are monitored on the implementation by the correspondence check, not modelled.
   Proofs in Proofs/ParseP.v (axiom-free). *)
From PMC Require Import Spec.Lemmas Model.Parse Spec.Grammar Proofs.PrintP Proofs.ParseP Proofs.GrammarP.

(* every input string either yields a formula or is rejected: no other outcome (in particular
   the parser's fuel always suffices) *)
Theorem C10_total : forall L s, parse_string L s = ParseErr \/ exists f, parse_string L s = Ok f.
Proof. exact parse_string_total. Qed.
Print Assumptions C10_total.

(* an accepted string yields a formula of EXACTLY the parser's logic with the documented
   arities: PL — no temporal operator or quantifier; CTL — a state formula or one path formula,
   A/E always paired with one of X F G U R; LTL — no E, A only at the root; so a string whose
   only readings lie outside the logic is never accepted *)
Theorem C10_member : forall L s f, parse_string L s = Ok f -> member L f = true /\ arity_ok f = true.
Proof. exact PMC.Proofs.ParseP.C10_member. Qed.
Print Assumptions C10_member.

(* SOUNDNESS w.r.t. the documented grammar: Spec/Grammar.v transcribes the four grammar texts
   (PL/CTLS/CTL/LTL parser.py, holes filled with the alphabets' symbols) as plain context-free
   grammars over terminal strings with free tokenisation (what an Earley parser with a dynamic
   lexer accepts), producing the AST as the transformers do.  Every string the parser model
   accepts is derivable there with the same AST: it never accepts what the grammar excludes. *)
Theorem C10_sound : forall L s f, parse_string L s = Ok f -> in_language L s f.
Proof. exact PMC.Proofs.GrammarP.C10_sound. Qed.
Print Assumptions C10_sound.

(* sanity of the transcription: the grammar only derives formulas of its logic *)
Theorem C10_grammar_member : forall L ts f, derives L ts f -> member L f = true.
Proof. exact grammar_member. Qed.
Print Assumptions C10_grammar_member.

(* the inclusion is strict (LALR + contextual lexer accepts less than the pure CFG): "AX p" *)
Theorem C10_strict : exists s f, in_language CTL s f /\ parse_string CTL s <> Ok f.
Proof. exact ex_ctl_AXp_strict. Qed.
Print Assumptions C10_strict.

(* completeness on printed formulas: everything the logic can print is accepted (C09) *)
Theorem C10_accepts_printed : forall L f, L <> CTL -> good L f = true -> parse_string L (print_std f) = Ok f.
Proof. exact C09_roundtrip_std. Qed.
Print Assumptions C10_accepts_printed.

(* the examples of the property text, and the contextual-keyword behaviour of Lark's lexer *)
From Coq Require Import String.
Theorem C10_examples :
  parse_string CTL "A F G q"%string = ParseErr /\
  parse_string LTL "E F q"%string = ParseErr /\
  parse_string LTL "A (a U b) or c"%string = ParseErr /\
  parse_string PL "p or q and r"%string = ParseErr /\
  parse_string PL "A p"%string = ParseErr /\
  parse_string CTL "A F G"%string = Ok (FA (FF (FAtom "G"%string))) /\
  parse_string CTLS "U U U"%string = Ok (FU (FAtom "U"%string) (FAtom "U"%string)) /\
  parse_string PL "p orb"%string = Ok (FOr [FAtom "p"%string; FAtom "b"%string]) /\
  parse_string CTL "p # q"%string = ParseErr.
Proof. vm_compute. repeat split. Qed.
Print Assumptions C10_examples.
