(* C03 *) From PMC Require Import Spec.Lemmas.
