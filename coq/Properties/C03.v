(* C03 — CTL* model checking is exact for arbitrary quantifier / path-operator nesting
   (CTLS/model_checking.py; model Model/CTLSmc.v: innermost-first elimination of quantified
   subformulas through fresh atomic propositions on a labelled clone, CTL checker first, LTL
   tableau for non-CTL A-formulas, E g ~> not A not g).  Theorems only; the proof (labelling
   invariant + substitution lemma + name hygiene by counting '[' characters, using the
   injectivity of the printer) is in Proofs/CTLSP.v, instantiated in Proofs/AssembleCTLS.v
   with C01 (CTL), C02 (LTL) and printer injectivity.
   [wf_K K] = the invariant of every constructed Kripke object (well-formed total graph,
   one label entry per state, initial states are states); [ident_atoms f] = every atomic
   proposition of f matches [a-zA-Z_][a-zA-Z_0-9]* and is not a reserved word;
   [arity_ok f] = and/or have at least two operands. *)
From PMC Require Import Spec.Lemmas Proofs.KripkeP Proofs.PrintP Proofs.AssembleCTLS.

Theorem C03_exact : forall K f, wf_K K -> ctls_state f = true -> ident_atoms f = true -> arity_ok f = true ->
  exists S, ctls_modelcheck K f = Ok S /\
            forall s, In s S <-> (In s (states K) /\ holds K s f).
Proof. exact ctls_exact. Qed.
Print Assumptions C03_exact.

(* every structure built by the Kripke constructor satisfies wf_K *)
Theorem C03_applies_to_constructed : forall St St0 R L K, mk_kripke St St0 R L = Ok K -> wf_K K.
Proof. intros St St0 R L K. exact (mk_kripke_wf_K PMC.Proofs.GraphP.mk_graph_spec St St0 R L K). Qed.
Print Assumptions C03_applies_to_constructed.

(* why the hypothesis on atom names is there (known findings KF-C03-a / KF-print-a): with an
   atom that is spelled like a generated fresh name the model (as the code) answers wrongly *)
From Coq Require Import String.
Theorem C03_fresh_collision_refuted :
  exists K f, wf_K K /\ ctls_state f = true /\ arity_ok f = true /\
    ctls_modelcheck K f = Ok [] /\ exists s, In s (states K) /\ holds K s f.
Proof.
  pose (K := (mkK [(0, [0])] [] [(0, ["p"])])%string).
  assert (HK : mk_kripke [0] [] [(0, 0)] [(0, ["p"])]%string = Ok K) by (vm_compute; reflexivity).
  exists K, (FAnd [FE (FX (FAtom "p")); FNot (FAtom "[E(X(p))]")])%string.
  split; [exact (C03_applies_to_constructed _ _ _ _ _ HK)|].
  split; [reflexivity|]. split; [reflexivity|]. split; [vm_compute; reflexivity|].
  assert (Hp : is_path K (fun _ => 0)) by (intro i; unfold edge; simpl; auto).
  exists 0. split; [simpl; auto|].
  exists (fun _ => 0). split; [exact Hp|]. split; [reflexivity|].
  simpl. split.
  - exists (fun _ => 0). split; [exact Hp|]. split; [reflexivity|].
    unfold labelled, labels_of, suffix. simpl. auto.
  - split; [|exact I]. unfold labelled, labels_of. simpl. intros [H|[]]. discriminate.
Qed.
Print Assumptions C03_fresh_collision_refuted.

(* non-vacuity: nested quantifiers, a Boolean combination of temporal operators under E
   (handled through not A not), an LTL-only A-formula *)
Example C03_example :
  let K := mkK [(0, [1]); (1, [1; 2]); (2, [0])] [] [(0, ["p"]); (1, ["p"; "q"]); (2, [])]%string in
  ctls_modelcheck K (FE (FAnd [FG (FF (FAtom "q")); FF (FA (FX (FNot (FAtom "q"))))]))%string = Ok [0; 1; 2] /\
  ctls_modelcheck K (FA (FOr [FG (FAtom "p"); FF (FNot (FAtom "p"))]))%string = Ok [0; 1; 2] /\
  ctls_modelcheck K (FA (FF (FG (FAtom "q"))))%string = Ok [].
Proof. vm_compute. repeat split. Qed.
