(* LTLmc.v — model of pyModelChecking/LTL/model_checking.py (tableau construction,
   after fix F1).  Executable definitions only. *)
From PMC Require Export Model.CTLmc.

(* _get_closure: the set computed by the worklist, written structurally.
   (compared with the Python set as a set by the correspondence check) *)
Definition base (f : form) : list form := [f; LNot f].
Fixpoint closure (f : form) : list form :=
  match f with
  | FX g => base f ++ base (FX (LNot g)) ++ closure g
  | FNot g => closure g
  | FOr fs => base f ++ flat_map closure fs
  | FU g h => base f ++ closure g ++ closure h ++ base (FX f) ++ base (FX (LNot f))
  | _ => base f
  end.
(* formulas on which _get_closure raises TypeError *)
Fixpoint tableau_ok (f : form) : bool :=
  match f with
  | FBool _ | FAtom _ => true
  | FNot g | FX g => tableau_ok g
  | FOr fs => forallb tableau_ok fs
  | FU g h => tableau_ok g && tableau_ok h
  | _ => false
  end.

(* _holds_in_atom(phi, labels, Xs) *)
Fixpoint holds_in (lab : list atom) (Xs : list form) (f : form) : bool :=
  match f with
  | FBool b => b
  | FAtom a => mema a lab
  | FNot g => negb (holds_in lab Xs g)
  | FOr fs => existsb (holds_in lab Xs) fs
  | FX _ => memf f Xs
  | FU g h => holds_in lab Xs h || (holds_in lab Xs g && memf (FX f) Xs)
  | _ => false
  end.

Definition is_X (f : form) : bool := match f with FX _ => true | _ => false end.
Definition free_X (f : form) : bool :=
  match f with FX (FNot _) => false | FX _ => true | _ => false end.
(* one of {X g, X not g} for every such pair of the closure *)
Definition X_choices (cl : list form) : list (list form) :=
  fold_left (fun acc f =>
               match f with
               | FX g => map (fun Xs => f :: Xs) acc ++ map (fun Xs => FX (LNot g) :: Xs) acc
               | _ => acc
               end)
            (filter free_X cl) [[]].

(* _build_atoms: an atom is (state, closure formulas that hold) *)
Definition tatom := (nat * list form)%type.
Definition atoms (K : kripke) (cl : list form) : list tatom :=
  flat_map (fun s => map (fun Xs => (s, filter (holds_in (labels_of K s) Xs) cl)) (X_choices cl))
           (states K).

(* _does_respect_Xs *)
Definition respects (Xcl : list form) (a b : list form) : bool :=
  forallb (fun f => match f with FX g => Bool.eqb (memf g b) (memf f a) | _ => true end) Xcl.

Definition idxs {A} (l : list A) : list nat := seq 0 (List.length l).
Definition atom_at (ats : list tatom) (i : nat) : tatom := nth i ats (0, []).

(* _Tableu: nodes = indices of atoms; edge i -> j iff K has the edge between their
   states and the pair respects the X-formulas of the closure *)
Definition tableau (K : kripke) (cl : list form) (ats : list tatom) : graph :=
  let Xcl := filter is_X cl in
  map (fun i =>
         let a := atom_at ats i in
         (i, filter (fun j => let b := atom_at ats j in
                              memb (fst b) (succs (kg K) (fst a)) && respects Xcl (snd a) (snd b))
                    (idxs ats)))
      (idxs ats).

(* _is_non_trivial_self_fulfilling *)
Definition self_fulfilling (cl : list form) (ats : list tatom) (T : graph) (C : list nat) : bool :=
  nontrivial T C &&
  let fs := flat_map (fun i => snd (atom_at ats i)) C in
  forallb (fun f => match f with FU _ h => Bool.eqb (memf f fs) (memf h fs) | _ => true end) cl.

(* _checkE_path_formula *)
Definition checkE_path (K : kripke) (p : form) : list nat :=
  let cl := dedupf (closure p) in
  let ats := atoms K cl in
  let T := tableau K cl ats in
  let good := flat_map (fun C => if self_fulfilling cl ats T C then C else []) (compute_SCCs T) in
  let Rset := reach (reversed T) good in
  dedup (map (fun i => fst (atom_at ats i)) (filter (fun i => memf p (snd (atom_at ats i))) Rset)).

(* LTL.modelcheck(kripke, A g) for formula trees: a quantifier inside g makes
   _get_closure raise TypeError *)
Definition ltl_modelcheck (K : kripke) (f : form) : result (list nat) :=
  match f with
  | FA g => if ltl_path g then Ok (compl K (checkE_path K (restrict (LNot g)))) else TypeErr
  | _ => TypeErr
  end.
