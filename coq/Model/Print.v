(* Print.v — model of the __str__ methods of the formula classes.
   [print_std] is the printer of PL, CTL* and LTL objects
   (language.py LogicOperator.__str__, CTLS/language.py TemporalOperator.__str__ and
   PathQuantifier.__str__); [print_ctl] is the printer of CTL objects, whose X/F/G/A/E
   classes override __str__ (CTL/language.py).  Executable definitions only. *)
From PMC Require Export Model.Syntax.
From Coq Require Import String.
Local Open Scope string_scope.

Fixpoint join (sep : string) (l : list string) : string :=
  match l with
  | [] => ""
  | [x] => x
  | x :: r => x ++ sep ++ join sep r
  end.

(* LogicOperator.__str__: one operand -> 'sym x'; otherwise '(' + ' sym '.join + ')' *)
Definition print_nary (sym : string) (l : list string) : string :=
  match l with
  | [x] => sym ++ " " ++ x
  | _ => "(" ++ join (" " ++ sym ++ " ") l ++ ")"
  end.

Fixpoint print_std (f : form) : string :=
  match f with
  | FBool true => "true"
  | FBool false => "false"
  | FAtom a => a
  | FNot g => "not " ++ print_std g
  | FOr fs => print_nary "or" (map print_std fs)
  | FAnd fs => print_nary "and" (map print_std fs)
  | FImp g h => "(" ++ print_std g ++ " --> " ++ print_std h ++ ")"
  | FX g => "X(" ++ print_std g ++ ")"
  | FF g => "F(" ++ print_std g ++ ")"
  | FG g => "G(" ++ print_std g ++ ")"
  | FU g h => "(" ++ print_std g ++ " U " ++ print_std h ++ ")"
  | FR g h => "(" ++ print_std g ++ " R " ++ print_std h ++ ")"
  | FA g => "A(" ++ print_std g ++ ")"
  | FE g => "E(" ++ print_std g ++ ")"
  end.

Fixpoint print_ctl (f : form) : string :=
  match f with
  | FBool true => "true"
  | FBool false => "false"
  | FAtom a => a
  | FNot g => "not " ++ print_ctl g
  | FOr fs => print_nary "or" (map print_ctl fs)
  | FAnd fs => print_nary "and" (map print_ctl fs)
  | FImp g h => "(" ++ print_ctl g ++ " --> " ++ print_ctl h ++ ")"
  | FX g => "X " ++ print_ctl g
  | FF g => "F " ++ print_ctl g
  | FG g => "G " ++ print_ctl g
  | FU g h => "(" ++ print_ctl g ++ " U " ++ print_ctl h ++ ")"
  | FR g h => "(" ++ print_ctl g ++ " R " ++ print_ctl h ++ ")"
  | FA g => "A" ++ print_ctl g
  | FE g => "E" ++ print_ctl g
  end.

Definition print (L : lang) (f : form) : string :=
  match L with CTL => print_ctl f | _ => print_std f end.
Definition print_obj (o : obj) : string := print (fst o) (snd o).

(* Formula.__eq__ / __hash__ : by printed form; Bool.__eq__ overrides:
   Bool == Bool by value, Bool == anything else -> False (language.py:198-206).
   Python evaluates a == b with a.__eq__(b). *)
Definition eq_obj (a b : obj) : bool :=
  match snd a with
  | FBool x => match snd b with FBool y => Bool.eqb x y | _ => false end
  | _ => String.eqb (print_obj a) (print_obj b)
  end.
Definition hash_obj (a : obj) : string := print_obj a.
(* Bool(b) == python bool, and the reflected comparison bool == Bool(b) *)
Definition eq_obj_pybool (a : obj) (b : bool) : bool :=
  match snd a with FBool x => Bool.eqb x b | _ => String.eqb (print_obj a) (if b then "True" else "False") end.
