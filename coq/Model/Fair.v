(* Fair.v — model of the fairness paths (F is not None) of the three modelcheck
   functions: get_equivalent_non_fair_formula (CTLS/language.py and the CTL A/E
   overrides, after fix F3) and the modelcheck wrappers (after fix F4).
   Faithful to the code, including the reductions recorded as known findings
   D8/D9 in DESIGN.md.  Executable definitions only. *)
From PMC Require Export Model.CTLSmc.

(* CTLS/language.py get_equivalent_non_fair_formula *)
Fixpoint unfair_ctls (a : atom) (f : form) : form :=
  match f with
  | FBool _ | FAtom _ => FAnd [f; FAtom a]
  | FA g => FA (LNot (FAnd [LNot (unfair_ctls a g); FAtom a]))
  | FE g => FE (FAnd [FAtom a; unfair_ctls a g])
  | FNot g => FNot (unfair_ctls a g)
  | FOr fs => FOr (map (unfair_ctls a) fs)
  | FAnd fs => FAnd (map (unfair_ctls a) fs)
  | FImp g h => FImp (unfair_ctls a g) (unfair_ctls a h)
  | FX g => FX (unfair_ctls a g)
  | FF g => FF (unfair_ctls a g)
  | FG g => FG (unfair_ctls a g)
  | FU g h => FU (unfair_ctls a g) (unfair_ctls a h)
  | FR g h => FR (unfair_ctls a g) (unfair_ctls a h)
  end.

(* CTL objects: A and E look at the path operator below them (CTL/language.py);
   every other class inherits the CTLS method.  None = `raise TypeError`. *)
Fixpoint unfair_ctl (a : atom) (f : form) : option form :=
  let fa := FAtom a in
  let fix all (fs : list form) : option (list form) :=
      match fs with
      | [] => Some []
      | g :: r => omap2 cons (unfair_ctl a g) (all r)
      end in
  match f with
  | FBool _ | FAtom _ => Some (FAnd [f; fa])
  | FNot g => option_map FNot (unfair_ctl a g)
  | FOr fs => option_map FOr (all fs)
  | FAnd fs => option_map FAnd (all fs)
  | FImp g h => omap2 FImp (unfair_ctl a g) (unfair_ctl a h)
  | FA (FX g) => option_map (fun s0 => FNot (EX (FAnd [LNot s0; fa]))) (unfair_ctl a g)
  | FA (FF g) => option_map (fun s0 => FNot (EG (FAnd [LNot s0; fa]))) (unfair_ctl a g)
  | FA (FG g) => option_map (fun s0 => FNot (EU (FBool true) (FAnd [LNot s0; fa]))) (unfair_ctl a g)
  | FA (FU g h) =>
      omap2 (fun s0 s1 => FNot (FOr [EU (LNot s1) (FAnd [FNot (FOr [s0; s1]); fa]);
                                      EG (FAnd [LNot s1; fa])]))
            (unfair_ctl a g) (unfair_ctl a h)
  | FA (FR g h) =>
      omap2 (fun s0 s1 => FNot (EU (LNot s0) (FAnd [LNot s1; fa]))) (unfair_ctl a g) (unfair_ctl a h)
  | FE (FX g) => option_map (fun s0 => EX (FAnd [s0; fa])) (unfair_ctl a g)
  | FE (FF g) => option_map (fun s0 => EU (FBool true) (FAnd [s0; fa])) (unfair_ctl a g)
  | FE (FG g) => option_map (fun s0 => EG (FAnd [s0; fa])) (unfair_ctl a g)
  | FE (FU g h) => omap2 (fun s0 s1 => EU s0 (FAnd [s1; fa])) (unfair_ctl a g) (unfair_ctl a h)
  | FE (FR g h) =>
      omap2 (fun s0 s1 => FOr [EU s1 (FAnd [FNot (FOr [LNot s0; LNot s1]); fa]); EG (FAnd [s1; fa])])
            (unfair_ctl a g) (unfair_ctl a h)
  | _ => None
  end.

(* CTL.modelcheck(kripke, formula, F=F) *)
Definition ctl_modelcheck_fair (K : kripke) (f : form) (F : list (list nat)) : result (list nat) :=
  if ctl_state f then
    rbind (kclone K) (fun KC =>
      let '(K1, a) := label_fair_states KC F in
      match unfair_ctl a f with
      | Some f' => check (ctl_fuel f') K1 f'
      | None => TypeErr
      end)
  else TypeErr.

(* LTL.modelcheck(kripke, A g, F=F) (after F4) *)
Definition ltl_modelcheck_fair (K : kripke) (f : form) (F : list (list nat)) : result (list nat) :=
  match f with
  | FA g =>
      if ltl_path g then
        rbind (kclone K) (fun KC =>
          let '(K1, a) := label_fair_states KC F in
          let p := restrict (LNot g) in
          let p := FAnd [FAtom a; unfair_ctls a p] in
          let p := restrict p in
          Ok (compl K1 (checkE_path K1 p)))
      else TypeErr
  | _ => TypeErr
  end.

(* CTLS.modelcheck(kripke, formula, F=F): the elimination threads the fair label *)
Fixpoint elim_fair (fuel : nat) (a : atom) (K : kripke) (f : form) {struct fuel}
  : result (kripke * form) :=
  match fuel with
  | 0 => OutOfFuel
  | S n =>
      let elim_list :=
          fix go (K : kripke) (fs : list form) : result (kripke * list form) :=
            match fs with
            | [] => Ok (K, [])
            | g :: r => rbind (elim_fair n a K g) (fun '(K1, g') =>
                        rbind (go K1 r) (fun '(K2, r') => Ok (K2, g' :: r')))
            end in
      match f with
      | FBool _ | FAtom _ => Ok (K, f)
      | FA g | FE g =>
          let nm := fresh_name CTLS K f in
          rbind (elim_fair n a K g) (fun '(K1, g') =>
            let q := match f with FA _ => FA g' | _ => FE g' end in
            rbind
              (if ctl_castable_state q then
                 match unfair_ctl a q with
                 | Some q' => rmap (fun Sat => (K1, Sat)) (ctl_modelcheck K1 q')
                 | None => TypeErr
                 end
               else
                 let q' := unfair_ctls a q in
                 match q' with
                 | FA _ => rmap (fun Sat => (K1, Sat)) (ltl_modelcheck K1 q')
                 | FE h => rbind (elim n CTLS K1 (LNot (FA (LNot h)))) (fun '(K2, h') =>
                             rmap (fun Sat => (K2, Sat)) (ctl_modelcheck K2 h'))
                 | _ => TypeErr
                 end)
              (fun '(K3, Sat) => Ok (add_label K3 Sat nm, FAtom nm)))
      | _ => rbind (elim_list K (children f)) (fun '(K1, gs) => Ok (K1, build (root_op f) gs))
      end
  end.

Definition ctls_modelcheck_fair (K : kripke) (f : form) (F : list (list nat)) : result (list nat) :=
  rbind (kclone K) (fun KC =>
    let '(K0, a) := label_fair_states KC F in
    rbind (elim_fair (ctls_fuel f) a K0 f) (fun '(K1, h) =>
      ctl_modelcheck K1 (unfair_ctls a h))).
