(* GraphOps.v — a DiGraph that is edited after construction: sequences of
   DiGraph.add_node / DiGraph.add_edge calls by a caller who catches the documented
   RuntimeError (node / edge already there) and goes on.  Executable definitions only;
   theorems in Proofs/GraphOpsP.v. *)
From PMC Require Export Model.Graph.

Inductive gop :=
| OpNode (v : nat)          (* G.add_node(v) *)
| OpEdge (s d : nat).       (* G.add_edge(s, d) *)

Definition apply_gop (g : graph) (o : gop) : result graph :=
  match o with
  | OpNode v => add_node_r g v
  | OpEdge s d => add_edge_r g s d
  end.

(* the graph after the calls and, per call, whether it succeeded; a call that raises leaves
   the graph as it was *)
Fixpoint run_gops (g : graph) (ops : list gop) : graph * list bool :=
  match ops with
  | [] => (g, [])
  | o :: r =>
      match apply_gop g o with
      | Ok g' => let '(gf, bs) := run_gops g' r in (gf, true :: bs)
      | _ => let '(gf, bs) := run_gops g r in (gf, false :: bs)
      end
  end.

(* building (V, E) incrementally, the two orders used by callers *)
Definition build_nodes_first (V : list nat) (E : list (nat * nat)) : graph :=
  fst (run_gops [] (map OpNode V ++ map (fun e => OpEdge (fst e) (snd e)) E)).
Definition build_edges_first (V : list nat) (E : list (nat * nat)) : graph :=
  fst (run_gops [] (map (fun e => OpEdge (fst e) (snd e)) E ++ map OpNode V)).
