(* Memo.v — FAITHFUL models of the two places where pyModelChecking identifies formula
   objects by their printed form (Formula.__eq__/__hash__, language.py; Bool.__eq__
   overrides: Bool == Bool by value, Bool == anything else is False):

   * CTL/model_checking.py keeps a per-call memo dict L keyed by formula OBJECTS;
     [check_memo] threads that dict through _checkStateFormula and its helpers;
   * LTL/model_checking.py keeps the closure and the tableau atoms as Python sets of
     formula objects; [ltl_modelcheck_print] is the LTL pipeline of Model/LTLmc.v in which
     every membership test is by printed form.

   Model/CTLmc.v and Model/LTLmc.v ignore both (structural equality, no memo table);
   Proofs/MemoP.v proves that the models here coincide with them when no two distinct
   subformulas print alike (identifier atoms, documented arities), and refutes the
   coincidence in general (known finding KF-print-a).

   Python's lookup of an object f in a dict/set: the first stored key k (probe order =
   insertion order among keys of equal hash) with hash(k) = hash(f) and
   (k is f or k.__eq__(f)) — the STORED key is the receiver of __eq__ (checked on CPython
   with an atom named "true" against Bool(True): {AP true: _} contains Bool(True), but
   {Bool(True): _} does not contain AP true).  [eq_obj a b] of Model/Print.v is a.__eq__(b);
   eq_obj a b = true implies equal printed strings (= equal hashes), so the hash test needs
   no separate modelling.  Executable definitions only. *)
From PMC Require Export Model.Print Model.LTLmc.

(* ====================================================================================== *)
(* CTL: the memo dict L                                                                   *)
(* ====================================================================================== *)
(* insertion-ordered dict; the KEY OBJECT is kept (d[k] = v on an existing equal key keeps
   the old key object and replaces the value) *)
Definition memo := list (form * list nat).

(* stored_key.__eq__(looked_up_key), both CTL-module objects *)
Definition key_eq (k f : form) : bool := eq_obj (CTL, k) (CTL, f).

(* `formula in L` / `L[formula]` *)
Fixpoint mlookup (f : form) (m : memo) : option (list nat) :=
  match m with
  | [] => None
  | (k, S0) :: r => if key_eq k f then Some S0 else mlookup f r
  end.
(* `L[formula] = S1` *)
Fixpoint mstore (f : form) (S1 : list nat) (m : memo) : memo :=
  match m with
  | [] => [(f, S1)]
  | (k, S0) :: r => if key_eq k f then (k, S1) :: r else (k, S0) :: mstore f S1 r
  end.

(* the common shape of _checkAtomicProposition/_checkNot/_checkEX/_checkOr/_checkEU/_checkEG:
     if formula not in L: <compute, threading L>; L[formula] = Lformula
     return L[formula]
   (the final L[formula] finds the entry just written) *)
Definition memoized (f : form) (m : memo) (compute : unit -> result (list nat * memo))
  : result (list nat * memo) :=
  match mlookup f m with
  | Some S0 => Ok (S0, m)
  | None => rbind (compute tt) (fun r => Ok (fst r, mstore f (fst r) (snd r)))
  end.

(* _checkStateFormula(kripke, formula, L), L threaded *)
Fixpoint check_memo (fuel : nat) (K : kripke) (f : form) (m : memo) {struct fuel}
  : result (list nat * memo) :=
  match fuel with
  | 0 => OutOfFuel
  | S n =>
      match f with
      | FNot g =>                                                             (* _checkNot *)
          memoized f m (fun _ =>
            rbind (check_memo n K g m) (fun r => Ok (compl K (fst r), snd r)))
      | FOr fs =>                                                             (* _checkOr *)
          memoized f m (fun _ =>
            fold_left (fun acc g =>
                         rbind acc (fun a =>
                         rbind (check_memo n K g (snd a)) (fun b =>
                         Ok (union (fst a) (fst b), snd b))))
                      fs (Ok ([], m)))
      (* the Bool branch stores under a fresh Lang.Bool key and never looks up *)
      | FBool true => Ok (states K, mstore (FBool true) (states K) m)
      | FBool false => Ok ([], mstore (FBool false) [] m)
      | FAtom a => memoized f m (fun _ => Ok (sat_atom K a, m))     (* _checkAtomicProposition *)
      | FE (FG g) =>                                                          (* _checkEG *)
          memoized f m (fun _ =>
            rbind (check_memo n K g m) (fun r => Ok (checkEG K (fst r), snd r)))
      | FE (FU g h) =>                                                        (* _checkEU *)
          memoized f m (fun _ =>
            rbind (check_memo n K g m) (fun a =>
            rbind (check_memo n K h (snd a)) (fun b =>
            Ok (checkEU K (fst a) (fst b), snd b))))
      | FE (FX g) =>                                                          (* _checkEX *)
          memoized f m (fun _ =>
            rbind (check_memo n K g m) (fun r => Ok (checkEX K (fst r), snd r)))
      | _ =>
          (* restr_f = formula.get_equivalent_restricted_formula();
             Lalter = _checkStateFormula(kripke, restr_f, L); L[formula] = Lalter *)
          match restrict_ctl f with
          | Some r => rbind (check_memo n K r m) (fun x => Ok (fst x, mstore f (fst x) (snd x)))
          | None => TypeErr
          end
      end
  end.

(* CTL.modelcheck(kripke, formula): _checkStateFormula(kripke, formula, L=dict()) *)
Definition ctl_modelcheck_memo (K : kripke) (f : form) : result (list nat) :=
  if ctl_state f then rmap fst (check_memo (ctl_fuel f) K f []) else TypeErr.

(* ====================================================================================== *)
(* LTL: closure and tableau atoms as Python sets of formula objects                       *)
(* ====================================================================================== *)
(* The pipeline of Model/LTLmc.v, parametrised by the equality used for membership tests:
   [feq k f] = k.__eq__(f) where k is the element STORED in the set and f the object looked
   up.  A Python set is modelled by the list of the objects that were inserted; `f in s` is
   [memq f s].  (Inserting an object that is already `in` the set keeps the old object; for
   the closure this is the explicit test of _get_closure, for the other sets — Xs choices,
   atoms, the union of the atoms of an SCC — only membership is ever observed, and
   dropping an element e because some stored k has k.__eq__(e) never changes a later
   membership answer: e.__eq__(x) implies k.__eq__(x) for Formula.__eq__/Bool.__eq__.) *)
Section ByEq.
  Variable feq : form -> form -> bool.

  Definition memq (f : form) (l : list form) : bool := existsb (fun k => feq k f) l.

  (* _get_closure: what a newly added phi pushes on the stack T, top of stack first
     (T.append(LNot(phi)) comes first, so it is popped last); None = raise TypeError *)
  Definition pushes (phi : form) : option (list form) :=
    match phi with
    | FX g => Some [g; LNot phi]
    | FNot (FX g) => Some [FX (LNot g); LNot phi]
    | FOr fs => Some (rev fs ++ [LNot phi])
    | FU g h => Some [FX phi; h; g; LNot phi]
    | FNot _ | FAtom _ | FBool _ => Some [LNot phi]
    | _ => None
    end.

  (* the worklist loop; T = stack (head = top), cl = the set so far (newest first) *)
  Fixpoint closure_wl (fuel : nat) (T cl : list form) {struct fuel} : result (list form) :=
    match fuel with
    | 0 => OutOfFuel
    | S n =>
        match T with
        | [] => Ok cl
        | phi :: T' =>
            if memq phi cl then closure_wl n T' cl
            else match pushes phi with
                 | Some ps => closure_wl n (ps ++ T') (phi :: cl)
                 | None => TypeErr
                 end
        end
    end.

  (* every pop either discards or adds a formula of the structural closure [closure p] *)
  Definition wl_weight (phi : form) : nat :=
    match pushes phi with Some ps => S (List.length ps) | None => 1 end.
  Definition closure_fuel (p : form) : nat := 2 + list_sum (map wl_weight (closure p)).

  (* The surviving objects W are those of the worklist run: WHICH of two objects that are
     equal by print survives is decided by the (deterministic) stack order above, and it
     matters, because _build_atoms/_holds_in_atom dispatch on the CLASS of the survivor
     (an atom named "X(p)" versus the formula X(p)).
     The ITERATION ORDER of the Python set `closure` (a function of the string hashes, i.e.
     of PYTHONHASHSEED) is the one thing the list model does not follow: it only permutes
     the atoms of the tableau (the order of free_Xs / Xs_choices and of the formulas inside
     an atom), and the answer — a set of states read off the SCCs and a reachability set of
     the tableau — does not depend on that numbering (harness/memo_probe.py agrees under
     several hash seeds).  The survivors are therefore listed in the order of the clean
     model's closure, [dedupf (closure p)]; [memf] is object identity here and only sorts
     W (W never leaves [closure p], so the second part is always empty). *)
  Definition closure_q (p : form) : result (list form) :=
    rmap (fun W => filter (fun f => memf f W) (dedupf (closure p)) ++
                   filter (fun f => negb (memf f (closure p))) (rev W))
         (closure_wl (closure_fuel p) [p] []).

  (* _holds_in_atom(phi, labels, Xs) *)
  Fixpoint holds_in_q (lab : list atom) (Xs : list form) (f : form) : bool :=
    match f with
    | FBool b => b
    | FAtom a => mema a lab
    | FNot g => negb (holds_in_q lab Xs g)
    | FOr fs => existsb (holds_in_q lab Xs) fs
    | FX _ => memq f Xs
    | FU g h => holds_in_q lab Xs h || (holds_in_q lab Xs g && memq (FX f) Xs)
    | _ => false
    end.

  (* _build_atoms ([X_choices] of LTLmc.v contains no equality test) *)
  Definition atoms_q (K : kripke) (cl : list form) : list tatom :=
    flat_map (fun s => map (fun Xs => (s, filter (holds_in_q (labels_of K s) Xs) cl)) (X_choices cl))
             (states K).

  (* _does_respect_Xs *)
  Definition respects_q (Xcl : list form) (a b : list form) : bool :=
    forallb (fun f => match f with FX g => Bool.eqb (memq g b) (memq f a) | _ => true end) Xcl.

  (* _Tableu *)
  Definition tableau_q (K : kripke) (cl : list form) (ats : list tatom) : graph :=
    let Xcl := filter is_X cl in
    map (fun i =>
           let a := atom_at ats i in
           (i, filter (fun j => let b := atom_at ats j in
                                memb (fst b) (succs (kg K) (fst a)) && respects_q Xcl (snd a) (snd b))
                      (idxs ats)))
        (idxs ats).

  (* _is_non_trivial_self_fulfilling *)
  Definition self_fulfilling_q (cl : list form) (ats : list tatom) (T : graph) (C : list nat) : bool :=
    nontrivial T C &&
    let fs := flat_map (fun i => snd (atom_at ats i)) C in
    forallb (fun f => match f with FU _ h => Bool.eqb (memq f fs) (memq h fs) | _ => true end) cl.

  (* _checkE_path_formula, given the closure *)
  Definition checkE_path_cl (K : kripke) (cl : list form) (p : form) : list nat :=
    let ats := atoms_q K cl in
    let T := tableau_q K cl ats in
    let good := flat_map (fun C => if self_fulfilling_q cl ats T C then C else []) (compute_SCCs T) in
    let Rset := reach (reversed T) good in
    dedup (map (fun i => fst (atom_at ats i)) (filter (fun i => memq p (snd (atom_at ats i))) Rset)).

  Definition checkE_path_q (K : kripke) (p : form) : result (list nat) :=
    rmap (fun cl => checkE_path_cl K cl p) (closure_q p).

  Definition ltl_modelcheck_q (K : kripke) (f : form) : result (list nat) :=
    match f with
    | FA g => if ltl_path g then rmap (compl K) (checkE_path_q K (restrict (LNot g))) else TypeErr
    | _ => TypeErr
    end.
End ByEq.

(* stored.__eq__(looked_up) of two LTL-module objects *)
Definition eq_print_ltl (k f : form) : bool := eq_obj (LTL, k) (LTL, f).

(* LTL.modelcheck(kripke, A g) as coded *)
Definition ltl_modelcheck_print (K : kripke) (f : form) : result (list nat) :=
  ltl_modelcheck_q eq_print_ltl K f.
