(* FairCells.v — the fairness argument as an OBJECT of the caller.

   In Model/Heap.v and Model/HeapSession.v the fairness constraints of a call are a value.
   In Python `F` is a container object: it has an address (`id(F)`), the caller may build it
   in the call expression (it is garbage when the call returns and CPython hands its address
   to the next container), or keep ONE list and edit it between calls.  Here a container is a
   cell addressed by a location; a session interleaves
     - FNew a F   : the caller builds a container; [a] may be the address of a dead one,
     - FEdit a F  : the caller edits the container at [a] in place,
     - FCall q a  : modelcheck(K, f, F = the container at [a]),
     - FWrite l c : the caller rewrites a label set of its structure (as in HeapSession).
   [spec_fsession] is what the caller is entitled to expect: every call answers for the
   CONTENTS the container has at the moment of the call.  [run_fsession_idcache] is the
   wrong library that remembers, per address, the constraints it read first.

   Executable definitions only; theorems in Proofs/FairCellsP.v. *)
From PMC Require Export Model.HeapSession.

Definition fheap := list (loc * list (list nat)).
Fixpoint fget (fh : fheap) (a : loc) : list (list nat) :=
  match fh with
  | [] => []
  | (x, F) :: r => if Nat.eqb x a then F else fget r a
  end.
Definition fset (fh : fheap) (a : loc) (F : list (list nat)) : fheap := (a, F) :: fh.

(* a fair query without its fairness argument *)
Inductive fquery :=
| QCTLS (k : hk) (f : form)
| QCTL (k : hk) (f : form)
| QLTL (k : hk) (f : form).

Definition with_F (q : fquery) (F : list (list nat)) : call :=
  match q with
  | QCTLS k f => CallCTLSFair k f F
  | QCTL k f => CallCTLFair k f F
  | QLTL k f => CallLTLFair k f F
  end.

Inductive fstep :=
| FNew (a : loc) (F : list (list nat))
| FEdit (a : loc) (F : list (list nat))
| FCall (q : fquery) (a : loc)
| FWrite (l : loc) (c : list atom).

(* what happens: the call reads the container *)
Fixpoint run_fsession (h : heap) (fh : fheap) (ss : list fstep) : heap * list (result (list nat)) :=
  match ss with
  | [] => (h, [])
  | FNew a F :: r | FEdit a F :: r => run_fsession h (fset fh a F) r
  | FCall q a :: r =>
      let '(h1, x) := run_call h (with_F q (fget fh a)) in
      let '(h2, xs) := run_fsession h1 fh r in
      (h2, x :: xs)
  | FWrite l c :: r => run_fsession (hset h l c) fh r
  end.

(* what the caller expects *)
Fixpoint spec_fsession (h : heap) (fh : fheap) (ss : list fstep) : list (result (list nat)) :=
  match ss with
  | [] => []
  | FNew a F :: r | FEdit a F :: r => spec_fsession h (fset fh a F) r
  | FCall q a :: r => pure_call h (with_F q (fget fh a)) :: spec_fsession h fh r
  | FWrite l c :: r => spec_fsession (hset h l c) fh r
  end.

(* the session with every container replaced by its contents at the time of the call: a
   session of Model/HeapSession.v *)
Fixpoint lower (fh : fheap) (ss : list fstep) : list step :=
  match ss with
  | [] => []
  | FNew a F :: r | FEdit a F :: r => lower (fset fh a F) r
  | FCall q a :: r => SCall (with_F q (fget fh a)) :: lower fh r
  | FWrite l c :: r => SWrite l c :: lower fh r
  end.

(* WRONG: the library remembers, per ADDRESS, the constraints it read there first *)
Fixpoint cache_get (c : fheap) (a : loc) : option (list (list nat)) :=
  match c with
  | [] => None
  | (x, F) :: r => if Nat.eqb x a then Some F else cache_get r a
  end.
Fixpoint run_fsession_idcache (h : heap) (fh cache : fheap) (ss : list fstep)
  : heap * list (result (list nat)) :=
  match ss with
  | [] => (h, [])
  | FNew a F :: r | FEdit a F :: r => run_fsession_idcache h (fset fh a F) cache r
  | FCall q a :: r =>
      let '(F, cache') := match cache_get cache a with
                          | Some F => (F, cache)
                          | None => (fget fh a, (a, fget fh a) :: cache)
                          end in
      let '(h1, x) := run_call h (with_F q F) in
      let '(h2, xs) := run_fsession_idcache h1 fh cache' r in
      (h2, x :: xs)
  | FWrite l c :: r => run_fsession_idcache (hset h l c) fh cache r
  end.

(* the addresses a session calls with, and the addresses it (re)builds or edits *)
Fixpoint called (ss : list fstep) : list loc :=
  match ss with
  | [] => []
  | FCall _ a :: r => a :: called r
  | _ :: r => called r
  end.
(* no container is built at, or edited at, an address that an EARLIER call has used *)
Fixpoint no_reuse (used : list loc) (ss : list fstep) : bool :=
  match ss with
  | [] => true
  | FNew a _ :: r | FEdit a _ :: r => negb (memb a used) && no_reuse used r
  | FCall _ a :: r => no_reuse (a :: used) r
  | FWrite _ _ :: r => no_reuse used r
  end.
