(* BddHist.v — client histories over the BDD store: a pool of OBDD references, the
   operations a program can perform on them, dropping references and garbage
   collection at arbitrary moments.  Executable definitions only. *)
From PMC Require Export Model.BExp.

Record hstate := mkH { hstore : store; hpool : list (option obdd) }.

Inductive bop := OpAnd | OpOr | OpXor.
Definition bop_fun (o : bop) : bool -> bool -> bool :=
  match o with OpAnd => andb | OpOr => orb | OpXor => xorb end.

Inductive hop :=
| HParse (k : nat) (O : ordering) (e : bexp)        (* pool[k] = OBDD(e, O) *)
| HLambda (k : nat) (args : list var) (e : bexp)    (* pool[k] = OBDD('lambda args: e') *)
| HApply (o : bop) (i j k : nat)                    (* pool[k] = pool[i] op pool[j] *)
| HNot (i k : nat)                                  (* pool[k] = ~pool[i] *)
| HRestrict (i : nat) (v : var) (b : bool) (k : nat)
| HReparse (i k : nat)                              (* pool[k] = OBDD(str(pool[i].root), pool[i].ordering) *)
| HDrop (i : nat)                                   (* del pool[i] *)
| HGc (keep : list nat).                            (* a collection that happens to spare the nodes
                                                       reachable from [keep]; [] = full collection *)

Definition pool_get (p : list (option obdd)) (i : nat) : option obdd := nth i p None.
Fixpoint pool_set (p : list (option obdd)) (k : nat) (o : option obdd) : list (option obdd) :=
  match p, k with
  | [], _ => []
  | _ :: r, 0 => o :: r
  | x :: r, S k' => x :: pool_set r k' o
  end.
Definition pool_roots (p : list (option obdd)) : list nat :=
  flat_map (fun o => match o with Some (r, _) => [r] | None => [] end) p.

(* the outcome of an operation that raises leaves the pool as it was; nodes created
   before the exception are garbage and stay in the store until the next collection *)
Definition commit (h : hstate) (k : nat) (r : result (store * obdd)) : hstate :=
  match r with
  | Ok so => mkH (fst so) (pool_set (hpool h) k (Some (snd so)))
  | _ => h
  end.

Definition hstep (h : hstate) (op : hop) : hstate :=
  let s := hstore h in
  let p := hpool h in
  match op with
  | HParse k ord e => commit h k (obdd_parse s e ord)
  | HLambda k args e => commit h k (obdd_lambda s args e)
  | HApply o i j k =>
      match pool_get p i, pool_get p j with
      | Some a, Some b => commit h k (obdd_apply (bop_fun o) s a b)
      | _, _ => h
      end
  | HNot i k => match pool_get p i with Some a => commit h k (obdd_neg s a) | None => h end
  | HRestrict i v b k =>
      match pool_get p i with Some a => commit h k (obdd_restrict s a v b) | None => h end
  | HReparse i k => match pool_get p i with Some a => commit h k (reparse_root s a) | None => h end
  | HDrop i => mkH s (pool_set p i None)
  | HGc keep => mkH (collect s (pool_roots p ++ filter (live s) keep)) p
  end.

Definition hinit (n : nat) : hstate := mkH [] (repeat None n).
Definition hrun (n : nat) (ops : list hop) : hstate := fold_left hstep ops (hinit n).

(* status of the last operation, for the correspondence check *)
Definition hstatus (h : hstate) (op : hop) : result unit :=
  let s := hstore h in
  let p := hpool h in
  let st (r : result (store * obdd)) : result unit := rmap (fun _ => tt) r in
  match op with
  | HParse k ord e => st (obdd_parse s e ord)
  | HLambda k args e => st (obdd_lambda s args e)
  | HApply o i j k =>
      match pool_get p i, pool_get p j with
      | Some a, Some b => st (obdd_apply (bop_fun o) s a b)
      | _, _ => Ok tt
      end
  | HNot i k => match pool_get p i with Some a => st (obdd_neg s a) | None => Ok tt end
  | HRestrict i v b k => match pool_get p i with Some a => st (obdd_restrict s a v b) | None => Ok tt end
  | HReparse i k => match pool_get p i with Some a => st (reparse_root s a) | None => Ok tt end
  | _ => Ok tt
  end.
