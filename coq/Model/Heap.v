(* Heap.v — a small HEAP model of the mutable label sets of pyModelChecking/kripke.py.

   In the Python code `Kripke._labels[s]` is a mutable `set`; `labels(s)` hands the very
   set object to the caller, `label_fair_states` and CTLS `_remove_state_subformulas` call
   `.add` on it.  The pure models (Model/Kripke.v, CTLSmc.v, Fair.v) return new structures,
   so "the caller's structure is unchanged" is trivially true of them.  Here label sets
   live in heap cells, a Kripke OBJECT only points to them, and labelling WRITES cells:
   aliasing, missing clones and shallow clones are expressible (and go wrong, see
   Proofs/HeapP.v).

   Executable definitions only. *)
From PMC Require Export Model.Fair.

(* ------------------------------------------------------------------ *)
(* heaps of label sets                                                 *)
(* ------------------------------------------------------------------ *)
Definition loc := nat.
(* association list, newest binding first; a write conses a new binding *)
Definition heap := list (loc * list atom).

Fixpoint hget (h : heap) (l : loc) : list atom :=
  match h with
  | [] => []
  | (x, c) :: r => if Nat.eqb x l then c else hget r l
  end.
Definition hset (h : heap) (l : loc) (c : list atom) : heap := (l, c) :: h.
Definition hallocated (h : heap) (l : loc) : bool := memb l (map fst h).
(* a location greater than every allocated one *)
Definition hfresh (h : heap) : loc := S (fold_right Nat.max 0 (map fst h)).
Definition halloc (h : heap) (c : list atom) : heap * loc :=
  let l := hfresh h in ((l, c) :: h, l).

(* heap-threading computations that may raise: the heap survives an exception *)
Definition hbind {A B} (x : heap * result A) (k : heap -> A -> heap * result B)
  : heap * result B :=
  match x with
  | (h, Ok a) => k h a
  | (h, TypeErr) => (h, TypeErr)
  | (h, RuntimeErr) => (h, RuntimeErr)
  | (h, SyntaxErr) => (h, SyntaxErr)
  | (h, ValueErr) => (h, ValueErr)
  | (h, ParseErr) => (h, ParseErr)
  | (h, OutOfFuel) => (h, OutOfFuel)
  end.

(* ------------------------------------------------------------------ *)
(* Kripke objects                                                      *)
(* ------------------------------------------------------------------ *)
(* graph and initial states are never mutated by any modelcheck, so they stay values;
   every state points to the cell that holds its label set (`self._labels[s]`) *)
Record hk := mkHK { hgraph : graph; hinit : list nat; hlab : list (nat * loc) }.

Definition locs (k : hk) : list loc := map snd (hlab k).

(* the abstract value of an object in a heap *)
Definition abs (h : heap) (k : hk) : kripke :=
  mkK (hgraph k) (hinit k) (map (fun '(s, l) => (s, hget h l)) (hlab k)).

(* Kripke.clone(): `L[state] = set(AP)` for every state, then the constructor (which
   copies again: `self._labels[state] = set(L[state])`).  The graph / initial states /
   label normalisation is the one of the pure [kclone] (same constructor); what the heap
   model adds is that every state of the clone gets a NEW cell. *)
Fixpoint alloc_cells (h : heap) (L : list (nat * list atom)) : heap * list (nat * loc) :=
  match L with
  | [] => (h, [])
  | (s, c) :: r =>
      let '(h1, l) := halloc h c in
      let '(h2, m) := alloc_cells h1 r in
      (h2, (s, l) :: m)
  end.
Definition clone_h (h : heap) (k : hk) : heap * result hk :=
  hbind (h, kclone (abs h k)) (fun h KC =>
    let '(h', m) := alloc_cells h (klab KC) in
    (h', Ok (mkHK (kg KC) (kinit KC) m))).

(* WRONG: a copy of the object that still points to the caller's cells *)
Definition clone_shallow_h (h : heap) (k : hk) : heap * result hk :=
  (h, Ok (mkHK (clone (hgraph k)) (hinit k) (hlab k))).
(* WRONG: no copy at all *)
Definition noclone_h (h : heap) (k : hk) : heap * result hk := (h, Ok k).

(* `labels(s).add(a)` / `self._labels[s].add(a)` for the states in S: the imperative
   [add_label].  The cell is read at the moment it is written. *)
Fixpoint add_label_cells (h : heap) (m : list (nat * loc)) (S : list nat) (a : atom) : heap :=
  match m with
  | [] => h
  | (s, l) :: r =>
      let c := hget h l in
      add_label_cells (if memb s S && negb (mema a c) then hset h l (c ++ [a]) else h) r S a
  end.
Definition add_label_h (h : heap) (k : hk) (S : list nat) (a : atom) : heap :=
  add_label_cells h (hlab k) S a.

(* Kripke.label_fair_states(F): mutates the object it is called on *)
Definition label_fair_states_h (h : heap) (k : hk) (F : list (list nat)) : heap * atom :=
  let K := abs h k in
  let a := fair_label K in
  (add_label_h h k (get_fair_states K F) a, a).

(* ------------------------------------------------------------------ *)
(* CTLS: _remove_state_subformulas / _checkQuantifiedFormula as heap programs.          *)
(* Same recursion as [elim]/[check_quantified] in Model/CTLSmc.v; the object [k] is     *)
(* fixed, the heap is threaded, [add_label] becomes [add_label_h], the CTL / LTL         *)
(* sub-queries (which do not mutate: no clone and no labelling without F) read          *)
(* [abs heap k].                                                                         *)
(* ------------------------------------------------------------------ *)
Fixpoint elim_h (fuel : nat) (L : lang) (h : heap) (k : hk) (f : form) {struct fuel}
  : heap * result form :=
  match fuel with
  | 0 => (h, OutOfFuel)
  | S n =>
      let elim_list :=
          fix go (h : heap) (fs : list form) : heap * result (list form) :=
            match fs with
            | [] => (h, Ok [])
            | g :: r => hbind (elim_h n L h k g) (fun h1 g' =>
                        hbind (go h1 r) (fun h2 r' => (h2, Ok (g' :: r'))))
            end in
      match f with
      | FBool _ | FAtom _ => (h, Ok f)
      | FA g | FE g =>
          let a := fresh_name L (abs h k) f in
          hbind (check_quantified_h n L h k f) (fun h1 Sat =>
            (add_label_h h1 k Sat a, Ok (FAtom a)))
      | _ => hbind (elim_list h (children f)) (fun h1 gs => (h1, Ok (build (root_op f) gs)))
      end
  end
with check_quantified_h (fuel : nat) (L : lang) (h : heap) (k : hk) (f : form) {struct fuel}
  : heap * result (list nat) :=
  match fuel with
  | 0 => (h, OutOfFuel)
  | S n =>
      match f with
      | FA g | FE g =>
          hbind (elim_h n L h k g) (fun h1 g' =>
            let q := match f with FA _ => FA g' | _ => FE g' end in
            if ctl_castable_state q then (h1, ctl_modelcheck (abs h1 k) q)
            else
              match f with
              | FA _ => (h1, ltl_modelcheck (abs h1 k) q)
              | _ =>
                  hbind (elim_h n L h1 k (LNot (FA (LNot g')))) (fun h2 hh =>
                    (h2, ctl_modelcheck (abs h2 k) hh))
              end)
      | _ => (h, TypeErr)
      end
  end.

(* CTLS.modelcheck(kripke, formula): `kripkeC = kripke.clone()` first.  The cloning
   function is a parameter so that the wrong disciplines can be stated too. *)
Definition ctls_modelcheck_in_with (cl : heap -> hk -> heap * result hk)
    (L : lang) (h : heap) (k : hk) (f : form) : heap * result (list nat) :=
  hbind (cl h k) (fun h1 kc =>
  hbind (elim_h (ctls_fuel f) L h1 kc f) (fun h2 g =>
    (h2, ctl_modelcheck (abs h2 kc) g))).
Definition ctls_modelcheck_in_h := ctls_modelcheck_in_with clone_h.
Definition ctls_modelcheck_h := ctls_modelcheck_in_with clone_h CTLS.
Definition ctls_modelcheck_noclone_h := ctls_modelcheck_in_with noclone_h CTLS.
Definition ctls_modelcheck_shallow_h := ctls_modelcheck_in_with clone_shallow_h CTLS.

(* CTL.modelcheck / LTL.modelcheck without F: no clone, no labelling, the heap is only read *)
Definition ctl_modelcheck_h (h : heap) (k : hk) (f : form) : heap * result (list nat) :=
  (h, ctl_modelcheck (abs h k) f).
Definition ltl_modelcheck_h (h : heap) (k : hk) (f : form) : heap * result (list nat) :=
  (h, ltl_modelcheck (abs h k) f).

(* ------------------------------------------------------------------ *)
(* the fairness entry points                                           *)
(* ------------------------------------------------------------------ *)
(* CTL.modelcheck(kripke, formula, F=F):
   `kripke = kripke.clone(); fair_label = kripke.label_fair_states(F)` *)
Definition ctl_modelcheck_fair_with (cl : heap -> hk -> heap * result hk)
    (h : heap) (k : hk) (f : form) (F : list (list nat)) : heap * result (list nat) :=
  if ctl_state f then
    hbind (cl h k) (fun h1 kc =>
      let '(h2, a) := label_fair_states_h h1 kc F in
      match unfair_ctl a f with
      | Some f' => (h2, check (ctl_fuel f') (abs h2 kc) f')
      | None => (h2, TypeErr)
      end)
  else (h, TypeErr).
Definition ctl_modelcheck_fair_h := ctl_modelcheck_fair_with clone_h.
Definition ctl_modelcheck_fair_noclone_h := ctl_modelcheck_fair_with noclone_h.
Definition ctl_modelcheck_fair_shallow_h := ctl_modelcheck_fair_with clone_shallow_h.

(* LTL.modelcheck(kripke, A g, F=F) *)
Definition ltl_modelcheck_fair_with (cl : heap -> hk -> heap * result hk)
    (h : heap) (k : hk) (f : form) (F : list (list nat)) : heap * result (list nat) :=
  match f with
  | FA g =>
      if ltl_path g then
        hbind (cl h k) (fun h1 kc =>
          let '(h2, a) := label_fair_states_h h1 kc F in
          let p := restrict (LNot g) in
          let p := FAnd [FAtom a; unfair_ctls a p] in
          let p := restrict p in
          (h2, Ok (compl (abs h2 kc) (checkE_path (abs h2 kc) p))))
      else (h, TypeErr)
  | _ => (h, TypeErr)
  end.
Definition ltl_modelcheck_fair_h := ltl_modelcheck_fair_with clone_h.
Definition ltl_modelcheck_fair_noclone_h := ltl_modelcheck_fair_with noclone_h.

(* CTLS.modelcheck(kripke, formula, F=F) *)
Fixpoint elim_fair_h (fuel : nat) (a : atom) (h : heap) (k : hk) (f : form) {struct fuel}
  : heap * result form :=
  match fuel with
  | 0 => (h, OutOfFuel)
  | S n =>
      let elim_list :=
          fix go (h : heap) (fs : list form) : heap * result (list form) :=
            match fs with
            | [] => (h, Ok [])
            | g :: r => hbind (elim_fair_h n a h k g) (fun h1 g' =>
                        hbind (go h1 r) (fun h2 r' => (h2, Ok (g' :: r'))))
            end in
      match f with
      | FBool _ | FAtom _ => (h, Ok f)
      | FA g | FE g =>
          let nm := fresh_name CTLS (abs h k) f in
          hbind (elim_fair_h n a h k g) (fun h1 g' =>
            let q := match f with FA _ => FA g' | _ => FE g' end in
            hbind
              (if ctl_castable_state q then
                 match unfair_ctl a q with
                 | Some q' => (h1, ctl_modelcheck (abs h1 k) q')
                 | None => (h1, TypeErr)
                 end
               else
                 let q' := unfair_ctls a q in
                 match q' with
                 | FA _ => (h1, ltl_modelcheck (abs h1 k) q')
                 | FE hh => hbind (elim_h n CTLS h1 k (LNot (FA (LNot hh)))) (fun h2 h' =>
                              (h2, ctl_modelcheck (abs h2 k) h'))
                 | _ => (h1, TypeErr)
                 end)
              (fun h3 Sat => (add_label_h h3 k Sat nm, Ok (FAtom nm))))
      | _ => hbind (elim_list h (children f)) (fun h1 gs => (h1, Ok (build (root_op f) gs)))
      end
  end.

Definition ctls_modelcheck_fair_with (cl : heap -> hk -> heap * result hk)
    (h : heap) (k : hk) (f : form) (F : list (list nat)) : heap * result (list nat) :=
  hbind (cl h k) (fun h1 kc =>
    let '(h2, a) := label_fair_states_h h1 kc F in
    hbind (elim_fair_h (ctls_fuel f) a h2 kc f) (fun h3 g =>
      (h3, ctl_modelcheck (abs h3 kc) (unfair_ctls a g)))).
Definition ctls_modelcheck_fair_h := ctls_modelcheck_fair_with clone_h.
Definition ctls_modelcheck_fair_noclone_h := ctls_modelcheck_fair_with noclone_h.

(* ------------------------------------------------------------------ *)
(* a session: API calls executed one after the other on one heap       *)
(* ------------------------------------------------------------------ *)
Inductive call :=
| CallCTLS (k : hk) (f : form)
| CallCTL (k : hk) (f : form)
| CallLTL (k : hk) (f : form)
| CallCTLSFair (k : hk) (f : form) (F : list (list nat))
| CallCTLFair (k : hk) (f : form) (F : list (list nat))
| CallLTLFair (k : hk) (f : form) (F : list (list nat)).

Definition call_obj (c : call) : hk :=
  match c with
  | CallCTLS k _ | CallCTL k _ | CallLTL k _
  | CallCTLSFair k _ _ | CallCTLFair k _ _ | CallLTLFair k _ _ => k
  end.

Definition run_call (h : heap) (c : call) : heap * result (list nat) :=
  match c with
  | CallCTLS k f => ctls_modelcheck_h h k f
  | CallCTL k f => ctl_modelcheck_h h k f
  | CallLTL k f => ltl_modelcheck_h h k f
  | CallCTLSFair k f F => ctls_modelcheck_fair_h h k f F
  | CallCTLFair k f F => ctl_modelcheck_fair_h h k f F
  | CallLTLFair k f F => ltl_modelcheck_fair_h h k f F
  end.

(* what the pure models answer for the same call on the abstract value in heap [h] *)
Definition pure_call (h : heap) (c : call) : result (list nat) :=
  match c with
  | CallCTLS k f => ctls_modelcheck (abs h k) f
  | CallCTL k f => ctl_modelcheck (abs h k) f
  | CallLTL k f => ltl_modelcheck (abs h k) f
  | CallCTLSFair k f F => ctls_modelcheck_fair (abs h k) f F
  | CallCTLFair k f F => ctl_modelcheck_fair (abs h k) f F
  | CallLTLFair k f F => ltl_modelcheck_fair (abs h k) f F
  end.

Fixpoint run_calls (h : heap) (cs : list call) : heap * list (result (list nat)) :=
  match cs with
  | [] => (h, [])
  | c :: r =>
      let '(h1, x) := run_call h c in
      let '(h2, xs) := run_calls h1 r in
      (h2, x :: xs)
  end.
