(* Syntax.v — model of the formula classes of pyModelChecking
   (language.py, PL/language.py, CTLS/language.py, CTL/language.py, LTL/language.py).
   One tree type for the four logics; a Python formula object is a pair
   (language module, tree).  Executable definitions only. *)
From PMC Require Export Model.Base.

Inductive form : Type :=
| FBool (b : bool)
| FAtom (a : atom)
| FNot (f : form)
| FOr (fs : list form)
| FAnd (fs : list form)
| FImp (f g : form)
| FX (f : form)
| FF (f : form)
| FG (f : form)
| FU (f g : form)
| FR (f g : form)
| FA (f : form)
| FE (f : form).

Fixpoint form_eqb (f g : form) {struct f} : bool :=
  let fix leqb (l1 l2 : list form) : bool :=
      match l1, l2 with
      | [], [] => true
      | a :: r1, b :: r2 => form_eqb a b && leqb r1 r2
      | _, _ => false
      end in
  match f, g with
  | FBool a, FBool b => Bool.eqb a b
  | FAtom a, FAtom b => String.eqb a b
  | FNot a, FNot b | FX a, FX b | FF a, FF b | FG a, FG b | FA a, FA b | FE a, FE b => form_eqb a b
  | FOr a, FOr b | FAnd a, FAnd b => leqb a b
  | FImp a1 a2, FImp b1 b2 | FU a1 a2, FU b1 b2 | FR a1 a2, FR b1 b2 =>
      form_eqb a1 b1 && form_eqb a2 b2
  | _, _ => false
  end.
Definition memf (f : form) (l : list form) : bool := existsb (form_eqb f) l.
Fixpoint dedupf (l : list form) : list form :=
  match l with
  | [] => []
  | x :: r => if memf x r then dedupf r else x :: dedupf r
  end.

(* Formula.height *)
Fixpoint height (f : form) : nat :=
  match f with
  | FBool _ | FAtom _ => 0
  | FNot g | FX g | FF g | FG g | FA g | FE g => S (height g)
  | FOr fs | FAnd fs => S (fold_right (fun g m => Nat.max (height g) m) 0 fs)
  | FImp g h | FU g h | FR g h => S (Nat.max (height g) (height h))
  end.

(* language.py LNot *)
Fixpoint LNot (f : form) : form :=
  match f with
  | FNot (FNot g) => LNot g
  | FNot g => g
  | _ => FNot f
  end.

(* CTLS/language.py get_equivalent_restricted_formula (also used by LTL objects) *)
Fixpoint restrict (f : form) : form :=
  match f with
  | FBool b => FBool b
  | FAtom a => FAtom a
  | FNot g => LNot (restrict g)
  | FOr fs => FOr (map restrict fs)
  | FAnd fs => FNot (FOr (map (fun p => LNot (restrict p)) fs))
  | FImp g h => FOr [LNot (restrict g); restrict h]
  | FX g => FX (restrict g)
  | FF g => FU (FBool true) (restrict g)
  | FG g => FNot (FU (FBool true) (LNot (restrict g)))
  | FU g h => FU (restrict g) (restrict h)
  | FR g h => FNot (FU (LNot (restrict g)) (LNot (restrict h)))
  | FA g => FNot (FE (LNot (restrict g)))
  | FE g => FE (restrict g)
  end.

(* LTL/language.py (after fix F9): LTL.A overrides the method — LTL has no E and no
   negated state formulas, so A rho ~> A (restricted rho); every other LTL class
   inherits the CTLS method above *)
Definition restrict_ltl (f : form) : form :=
  match f with FA g => FA (restrict g) | _ => restrict f end.

(* CTL/language.py: A / E override get_equivalent_restricted_formula and look at the
   path operator below them; None = the final `raise TypeError` *)
Definition EX f := FE (FX f).
Definition EU f g := FE (FU f g).
Definition EG f := FE (FG f).
Definition omap2 {A B C} (k : A -> B -> C) (a : option A) (b : option B) : option C :=
  match a, b with Some x, Some y => Some (k x y) | _, _ => None end.
Fixpoint restrict_ctl (f : form) : option form :=
  let fix all (fs : list form) : option (list form) :=
      match fs with
      | [] => Some []
      | g :: r => omap2 cons (restrict_ctl g) (all r)
      end in
  match f with
  | FBool b => Some (FBool b)
  | FAtom a => Some (FAtom a)
  | FNot g => option_map LNot (restrict_ctl g)
  | FOr fs => option_map FOr (all fs)
  | FAnd fs => option_map (fun l => FNot (FOr (map LNot l))) (all fs)
  | FImp g h => omap2 (fun x y => FOr [LNot x; y]) (restrict_ctl g) (restrict_ctl h)
  | FA (FX g) => option_map (fun s0 => FNot (EX (LNot s0))) (restrict_ctl g)
  | FA (FF g) => option_map (fun s0 => FNot (EG (LNot s0))) (restrict_ctl g)
  | FA (FG g) => option_map (fun s0 => FNot (EU (FBool true) (LNot s0))) (restrict_ctl g)
  | FA (FU g h) => omap2 (fun s0 s1 => FNot (FOr [EU (LNot s1) (FNot (FOr [s0; s1])); EG (LNot s1)]))
                         (restrict_ctl g) (restrict_ctl h)
  | FA (FR g h) => omap2 (fun s0 s1 => FNot (EU (LNot s0) (LNot s1))) (restrict_ctl g) (restrict_ctl h)
  | FE (FX g) => option_map EX (restrict_ctl g)
  | FE (FF g) => option_map (EU (FBool true)) (restrict_ctl g)
  | FE (FG g) => option_map EG (restrict_ctl g)
  | FE (FU g h) => omap2 EU (restrict_ctl g) (restrict_ctl h)
  | FE (FR g h) => omap2 (fun s0 s1 => FOr [EU s1 (FNot (FOr [LNot s0; LNot s1])); EG s1])
                         (restrict_ctl g) (restrict_ctl h)
  | _ => None
  end.

(* ---- membership in the four documented grammars (doc/source/logics.rst) ---- *)
Fixpoint pl_ok (f : form) : bool :=
  match f with
  | FBool _ | FAtom _ => true
  | FNot g => pl_ok g
  | FOr fs | FAnd fs => forallb pl_ok fs
  | FImp g h => pl_ok g && pl_ok h
  | _ => false
  end.
(* every tree is a CTL* path formula; [ctls_state] singles out the state formulas *)
Fixpoint ctls_state (f : form) : bool :=
  match f with
  | FBool _ | FAtom _ => true
  | FNot g => ctls_state g
  | FOr fs | FAnd fs => forallb ctls_state fs
  | FImp g h => ctls_state g && ctls_state h
  | FA _ | FE _ => true
  | _ => false
  end.
Fixpoint ctl_state (f : form) : bool :=
  match f with
  | FBool _ | FAtom _ => true
  | FNot g => ctl_state g
  | FOr fs | FAnd fs => forallb ctl_state fs
  | FImp g h => ctl_state g && ctl_state h
  | FA p | FE p =>
      match p with
      | FX g | FF g | FG g => ctl_state g
      | FU g h | FR g h => ctl_state g && ctl_state h
      | _ => false
      end
  | _ => false
  end.
Definition ctl_path (p : form) : bool :=
  match p with
  | FX g | FF g | FG g => ctl_state g
  | FU g h | FR g h => ctl_state g && ctl_state h
  | _ => false
  end.
Fixpoint ltl_path (f : form) : bool :=
  match f with
  | FBool _ | FAtom _ => true
  | FNot g | FX g | FF g | FG g => ltl_path g
  | FOr fs | FAnd fs => forallb ltl_path fs
  | FImp g h | FU g h | FR g h => ltl_path g && ltl_path h
  | FA _ | FE _ => false
  end.
Definition ltl_state (f : form) : bool := match f with FA g => ltl_path g | _ => false end.

(* documented arities: or/and at least two operands *)
Fixpoint arity_ok (f : form) : bool :=
  match f with
  | FBool _ | FAtom _ => true
  | FNot g | FX g | FF g | FG g | FA g | FE g => arity_ok g
  | FOr fs | FAnd fs => (2 <=? List.length fs) && forallb arity_ok fs
  | FImp g h | FU g h | FR g h => arity_ok g && arity_ok h
  end.

(* ---- objects: (language, tree); classes and the operand checks of wrap_subformulas ---- *)
Inductive lang := PL | CTLS | CTL | LTL.
Definition lang_eqb (a b : lang) : bool :=
  match a, b with PL, PL | CTLS, CTLS | CTL, CTL | LTL, LTL => true | _, _ => false end.
Inductive tycls := TFormula | TPath | TState.     (* Lang.Formula / PathFormula / StateFormula *)

(* the operators of the union alphabet *)
Inductive op := OBool (b : bool) | OAtom (a : atom) | ONot | OOr | OAnd | OImp
              | OX | OF | OG | OU | OR | OA | OE.

Definition root_op (f : form) : op :=
  match f with
  | FBool b => OBool b | FAtom a => OAtom a | FNot _ => ONot | FOr _ => OOr | FAnd _ => OAnd
  | FImp _ _ => OImp | FX _ => OX | FF _ => OF | FG _ => OG | FU _ _ => OU | FR _ _ => OR
  | FA _ => OA | FE _ => OE
  end.
Definition children (f : form) : list form :=
  match f with
  | FBool _ | FAtom _ => []
  | FNot g | FX g | FF g | FG g | FA g | FE g => [g]
  | FOr fs | FAnd fs => fs
  | FImp g h | FU g h | FR g h => [g; h]
  end.

(* does language L define a class for this operator?  (Lang.alphabet) *)
Definition in_alphabet (L : lang) (o : op) : bool :=
  match L, o with
  | PL, (OX | OF | OG | OU | OR | OA | OE) => false
  | LTL, OE => false
  | _, _ => true
  end.

(* isinstance(obj-with-root-operator o of language L, L.<tycls>), read off the class
   statements: CTLS.StateFormula <: CTLS.PathFormula <: CTLS.Formula;
   CTL.StateFormula and CTL.PathFormula are unrelated; LTL.A is the only LTL state formula *)
Definition is_logic_op (o : op) : bool :=
  match o with ONot | OOr | OAnd | OImp => true | _ => false end.
Definition is_temporal_op (o : op) : bool :=
  match o with OX | OF | OG | OU | OR => true | _ => false end.
Definition is_quant_op (o : op) : bool := match o with OA | OE => true | _ => false end.
Definition is_leaf_op (o : op) : bool := match o with OBool _ | OAtom _ => true | _ => false end.

Definition isinst (L : lang) (o : op) (c : tycls) : bool :=
  match c with
  | TFormula => true
  | TPath =>
      match L with
      | PL => false
      | CTLS => is_temporal_op o || is_quant_op o || is_leaf_op o
                (* CTLS logic operators derive from CTLS.Formula only *)
      | CTL => is_temporal_op o
      | LTL => negb (is_quant_op o)
      end
  | TState =>
      match L with
      | PL => false
      | CTLS => is_quant_op o || is_leaf_op o
      | CTL => negb (is_temporal_op o)
      | LTL => is_quant_op o
      end
  end.

(* the class passed to wrap_subformulas by the constructor that the MRO selects *)
Definition required (L : lang) (o : op) : tycls :=
  match L with
  | PL | CTLS => TFormula
  | CTL => if is_quant_op o then TPath else TState
  | LTL => TPath
  end.

Definition arity_matches (o : op) (n : nat) : bool :=
  match o with
  | OBool _ | OAtom _ => Nat.eqb n 0
  | ONot | OX | OF | OG | OA | OE => Nat.eqb n 1
  | OImp | OU | OR => Nat.eqb n 2
  | OOr | OAnd => 2 <=? n
  end.

Definition build (o : op) (args : list form) : form :=
  match o, args with
  | OBool b, _ => FBool b
  | OAtom a, _ => FAtom a
  | ONot, [g] => FNot g
  | OOr, fs => FOr fs
  | OAnd, fs => FAnd fs
  | OImp, [g; h] => FImp g h
  | OX, [g] => FX g
  | OF, [g] => FF g
  | OG, [g] => FG g
  | OU, [g; h] => FU g h
  | OR, [g; h] => FR g h
  | OA, [g] => FA g
  | OE, [g] => FE g
  | _, _ => FBool false
  end.

(* Formula.cast_to(Lang): rebuild the tree bottom-up with the classes of Lang.
   [cast L f] = Ok f when every constructor call succeeds, TypeErr otherwise. *)
Fixpoint cast (L : lang) (f : form) {struct f} : result form :=
  let o := root_op f in
  let ok_child (g : form) : bool :=
      match cast L g with Ok _ => isinst L (root_op g) (required L o) | _ => false end in
  let fix all (gs : list form) : bool :=
      match gs with [] => true | g :: r => ok_child g && all r end in
  if negb (in_alphabet L o) then TypeErr
  else
    match f with
    | FBool _ | FAtom _ => Ok f
    | FNot g | FX g | FF g | FG g | FA g | FE g => if ok_child g then Ok f else TypeErr
    | FOr fs | FAnd fs => if all fs then Ok f else TypeErr
    | FImp g h | FU g h | FR g h => if ok_child g && ok_child h then Ok f else TypeErr
    end.

(* a Python formula object *)
Definition obj := (lang * form)%type.

(* Lang.Op(args...): operands are objects of any language (bools and strings are
   already leaves here).  wrap_subformulas (after fix F8): an operand of another
   language module is cast first; then it must be an instance of the required class. *)
Definition mk (L : lang) (o : op) (args : list obj) : result obj :=
  if negb (in_alphabet L o) || negb (arity_matches o (List.length args)) then TypeErr
  else
    rbind (rmapM (fun a : obj =>
                    rbind (if lang_eqb (fst a) L then Ok (snd a) else cast L (snd a))
                          (fun g => if isinst L (root_op g) (required L o) then Ok g else TypeErr))
                 args)
          (fun gs => Ok (L, build o gs)).

Definition cast_to (L : lang) (o : obj) : result obj := rmap (fun f => (L, f)) (cast L (snd o)).
