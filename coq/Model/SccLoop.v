(* SccLoop.v — small-step model of the `while stack:` loop of
   pyModelChecking/graph.py compute_SCCs, with the explicit stack of frames
   `[node, iter(G.next(node))]` that the Python code really uses (Model/Scc.v writes the
   same computation as the recursion that this stack simulates; Proofs/SccLoopP.v
   proves that the two models return the same list).
     stack                  : list, top = last      (stk : list frame, head = top)
     frame [v, iterator]    : (v, rest), rest = the successors of v that the
                              iterator has not yielded yet
   The bookkeeping state [st] and the helpers [discover], [finish], [has], [st0] are
   those of Model/Scc.v, unchanged.  Executable definitions only. *)
From PMC Require Export Model.Scc.

Definition frame := (nat * list nat)%type.

(* one iteration of the body of `while stack:` *)
Definition loop_step (g : graph) (stk : list frame) (s : st) : list frame * st :=
  match stk with
  | [] => ([], s)
  | (v, []) :: stk' => (stk', finish g v s)          (* StopIteration: pop, post-order block *)
  | (v, w :: rest) :: stk' =>                         (* w = next(stack[-1][1]) *)
      if has (disc s) w then ((v, rest) :: stk', s)
      else ((w, succs g w) :: (v, rest) :: stk', discover w (S (time s)) s)
  end.

(* `while stack:` *)
Fixpoint loop_run (fuel : nat) (g : graph) (stk : list frame) (s : st) : st :=
  match fuel with
  | 0 => s
  | S n =>
      match stk with
      | [] => s
      | _ => let '(stk', s') := loop_step g stk s in loop_run n g stk' s'
      end
  end.

(* every iteration either consumes one successor of some frame or pops a frame, and
   every node gets at most one frame: at most |E| + |V| iterations per root
   (proved in Proofs/SccLoopP.v: the fuel never runs out on a well-formed graph) *)
Definition loop_fuel (g : graph) : nat := List.length (edges g) + 2 * List.length g + 1.

(* `if s not in disc: disc[s] = time; lowlink[s] = time; stack = [[s, iter(G.next(s))]]` *)
Definition loop_root (g : graph) (s : st) (r : nat) : st :=
  if has (disc s) r then s
  else loop_run (loop_fuel g) g [(r, succs g r)] (discover r (time s) s).

Definition scc_loop_run (g : graph) : st := fold_left (loop_root g) (nodes g) st0.
Definition compute_SCCs_loop (g : graph) : list (list nat) := out (scc_loop_run g).
