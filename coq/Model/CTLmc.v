(* CTLmc.v — model of pyModelChecking/CTL/model_checking.py (labelling algorithm).
   The per-call memo table L (keyed by printed formula) is a pure optimisation and
   is not modelled; it is tied to the code by the correspondence check only.
   Executable definitions only. *)
From PMC Require Export Model.Kripke Model.Syntax.

Definition compl (K : kripke) (S : list nat) : list nat :=
  filter (fun v => negb (memb v S)) (states K).                                  (* _checkNot *)
Definition union (a b : list nat) : list nat := dedup (a ++ b).                  (* _checkOr *)
Definition sat_atom (K : kripke) (a : atom) : list nat :=
  filter (fun v => mema a (labels_of K v)) (states K).                           (* _checkAtomicProposition *)

(* _checkEX: sources of the transitions whose destination is in S *)
Definition checkEX (K : kripke) (S : list nat) : list nat :=
  dedup (map fst (filter (fun e => memb (snd e) S) (edges (kg K)))).

(* _checkEU: reversed S0-subgraph, plus the reversed edges from S0 into S1, plus the
   S1 nodes themselves; backward reachability from S1 *)
Definition checkEU (K : kripke) (S0 S1 : list nat) : list nat :=
  let sg := reversed (subgraph (kg K) S0) in
  let sg := fold_left (fun g v =>
                fold_left (fun g w => if memb w S1 then add_edge_silent g w v else g)
                          (succs (kg K) v) g) S0 sg in
  let sg := fold_left add_node S1 sg in
  reach sg S1.

(* _checkEG: non-trivial SCCs of the (reversed) S-subgraph, backward reachability *)
Definition checkEG (K : kripke) (S : list nat) : list nat :=
  let sg := reversed (subgraph (kg K) S) in
  reach sg (flat_map (fun c => if nontrivial sg c then c else []) (compute_SCCs sg)).

(* _checkStateFormula: lazy dispatch; anything that is not directly handled is
   rewritten by get_equivalent_restricted_formula and checked again *)
Fixpoint check (fuel : nat) (K : kripke) (f : form) : result (list nat) :=
  match fuel with
  | 0 => OutOfFuel
  | S n =>
      match f with
      | FNot g => rmap (compl K) (check n K g)
      | FOr fs => fold_left (fun acc g => rbind acc (fun a => rbind (check n K g) (fun b => Ok (union a b))))
                            fs (Ok [])
      | FBool true => Ok (states K)
      | FBool false => Ok []
      | FAtom a => Ok (sat_atom K a)
      | FE (FG g) => rmap (checkEG K) (check n K g)
      | FE (FU g h) => rbind (check n K g) (fun a => rbind (check n K h) (fun b => Ok (checkEU K a b)))
      | FE (FX g) => rmap (checkEX K) (check n K g)
      | _ => match restrict_ctl f with Some r => check n K r | None => TypeErr end
      end
  end.

Definition ctl_fuel (f : form) : nat := 6 * height f + 8.

(* CTL.modelcheck(kripke, formula) for a formula tree (guards: castable to CTL and a
   state formula, i.e. [ctl_state]) *)
Definition ctl_modelcheck (K : kripke) (f : form) : result (list nat) :=
  if ctl_state f then check (ctl_fuel f) K f else TypeErr.
