(* Graph.v — model of pyModelChecking/graph.py, class DiGraph.
   A DiGraph is `self._next : dict node -> set node`; it is modelled by an
   association list in dict insertion order whose values are duplicate-free
   successor lists.  Executable definitions only. *)
From PMC Require Export Model.Base.

Definition graph := list (nat * list nat).

Definition nodes (g : graph) : list nat := map fst g.                         (* DiGraph.nodes *)
Fixpoint succs (g : graph) (v : nat) : list nat :=                             (* self._next[v] *)
  match g with
  | [] => []
  | (x, ds) :: g' => if Nat.eqb x v then ds else succs g' v
  end.
Definition has_node (g : graph) (v : nat) : bool := memb v (nodes g).

(* DiGraph.next: RuntimeError for a non-node *)
Definition next_r (g : graph) (v : nat) : result (list nat) :=
  if has_node g v then Ok (succs g v) else RuntimeErr.

(* self._next[s].add(d), creating the entry for s when missing *)
Fixpoint add_succ (g : graph) (s d : nat) : graph :=
  match g with
  | [] => [(s, [d])]
  | (x, ds) :: r =>
      if Nat.eqb x s then (x, if memb d ds then ds else ds ++ [d]) :: r
      else (x, ds) :: add_succ r s d
  end.
(* `if v not in self._next: self._next[v] = set()` *)
Definition add_node (g : graph) (v : nat) : graph :=
  if has_node g v then g else g ++ [(v, [])].

(* DiGraph.__init__(V, E) *)
Definition mk_graph (V : list nat) (E : list (nat * nat)) : graph :=
  fold_left (fun g e => add_node (add_succ g (fst e) (snd e)) (snd e)) E
            (fold_left add_node V []).

(* DiGraph.add_node / add_edge with their RuntimeErrors *)
Definition add_node_r (g : graph) (v : nat) : result graph :=
  if has_node g v then RuntimeErr else Ok (g ++ [(v, [])]).
Definition add_edge_r (g : graph) (s d : nat) : result graph :=
  if has_node g s && memb d (succs g s) then RuntimeErr
  else Ok (add_succ (add_node (add_node g s) d) s d).
(* `try: add_edge(w, v) except Exception: pass` as used by CTL._checkEU *)
Definition add_edge_silent (g : graph) (s d : nat) : graph :=
  match add_edge_r g s d with Ok g' => g' | _ => g end.

Definition edges (g : graph) : list (nat * nat) :=                            (* edges_iter *)
  flat_map (fun p => map (fun d => (fst p, d)) (snd p)) g.
Definition sources (g : graph) : list nat :=                                   (* sources *)
  map fst (filter (fun p => match snd p with [] => false | _ => true end) g).

Definition clone (g : graph) : graph := map (fun p => (fst p, snd p)) g.        (* clone *)

(* get_subgraph: V = set(nodes) & set(self.nodes()) *)
Definition subgraph (g : graph) (X : list nat) : graph :=
  let V := filter (fun v => memb v X) (nodes g) in
  mk_graph V (filter (fun e => memb (fst e) V && memb (snd e) V) (edges g)).

(* get_reversed_graph *)
Definition reversed (g : graph) : graph :=
  mk_graph (nodes g) (map (fun e => (snd e, fst e)) (edges g)).

(* get_reachable_set_from: worklist; `queue.pop()` takes the last element, so the
   queue is kept reversed (head = next to pop).  Each node is queued at most once,
   hence [length X + length g + 1] iterations suffice (proved in Proofs/GraphP.v). *)
Definition reach_step (st : list nat * list nat) (d : nat) : list nat * list nat :=
  let '(q, R) := st in if memb d R then (q, R) else (d :: q, R ++ [d]).
Fixpoint reach_loop (fuel : nat) (g : graph) (queue R : list nat) : list nat :=
  match fuel with
  | 0 => R
  | S f =>
      match queue with
      | [] => R
      | s :: q =>
          let '(q', R') := fold_left reach_step (succs g s) (q, R) in
          reach_loop f g q' R'
      end
  end.
Definition reach (g : graph) (X : list nat) : list nat :=
  reach_loop (List.length X + List.length g + 1) g (rev X) (dedup X).
(* self.next(s) raises RuntimeError for a start node that is not in the graph *)
Definition reach_r (g : graph) (X : list nat) : result (list nat) :=
  if forallb (has_node g) X then Ok (reach g X) else RuntimeErr.
