(* Bdd.v — model of pyModelChecking/BDD/BDD.py, OBDD.py and ordering.py.

   Nodes live in a store: ids 0 and 1 are the two terminal singletons
   (BDDTerminalNode.Tnodes), every other id maps to its (var, low, high) triple.
   The unique table of the Python code — the weak parent sets f_low / f_high that
   find_isomorph searches — is *derived* from the store: the parents of n through
   `low` are the live nodes whose low is n; a node that dies disappears from the
   parent sets of its children (WeakSet), i.e. from the store.

   The store is kept sorted by decreasing id (a new node gets an id greater than
   every live one), so the children of a node always sit in the tail.
   Executable definitions only. *)
From PMC Require Export Model.Base.

Definition var := nat.                      (* variable names, numbered by the harness *)
Definition triple := (var * nat * nat)%type.
Definition store := list (nat * triple).    (* id -> (var, low, high), newest first *)

Definition is_terminal (n : nat) : bool := n <? 2.

Fixpoint lookup (s : store) (n : nat) : option triple :=
  match s with
  | [] => None
  | (m, t) :: r => if Nat.eqb m n then Some t else lookup r n
  end.
Definition live (s : store) (n : nat) : bool :=
  is_terminal n || match lookup s n with Some _ => true | None => false end.

Definition triple_eqb (a b : triple) : bool :=
  let '(v, l, h) := a in let '(v', l', h') := b in
  Nat.eqb v v' && Nat.eqb l l' && Nat.eqb h h'.

(* find_isomorph(var, low, high): a live node with exactly this triple.
   (The code searches the shorter of low.f_low / high.f_high; both contain every
   live node with this triple, so the search result is this one.) *)
Fixpoint find_iso (s : store) (t : triple) : option nat :=
  match s with
  | [] => None
  | (m, t') :: r => if triple_eqb t t' then Some m else find_iso r t
  end.

Definition fresh (s : store) : nat :=
  match s with [] => 2 | (m, _) :: _ => S m end.

(* BDDNonTerminalNode.__new__(var, low, high) *)
Definition mknode (s : store) (v : var) (l h : nat) : store * nat :=
  if Nat.eqb l h then (s, l)
  else match find_iso s (v, l, h) with
       | Some n => (s, n)
       | None => let n := fresh s in ((n, (v, l, h)) :: s, n)
       end.

(* ---- orderings (ordering.py ListOrdering) ---- *)
Definition ordering := list var.
Fixpoint index_of (O : ordering) (v : var) : option nat :=
  match O with
  | [] => None
  | x :: r => if Nat.eqb x v then Some 0 else option_map S (index_of r v)
  end.
Definition in_ord (O : ordering) (v : var) : bool :=
  match index_of O v with Some _ => true | None => false end.
(* ListOrdering.in_order(x, y): cmp(x, y) < 0 *)
Definition in_order (O : ordering) (x y : var) : bool :=
  match index_of O x, index_of O y with
  | Some i, Some j => i <? j
  | _, _ => false
  end.
Fixpoint nodup_vars (O : ordering) : bool :=
  match O with [] => true | x :: r => negb (memb x r) && nodup_vars r end.
Fixpoint ordering_eqb (a b : ordering) : bool :=
  match a, b with
  | [], [] => true
  | x :: r, y :: r' => Nat.eqb x y && ordering_eqb r r'
  | _, _ => false
  end.

(* ---- semantics of a node (structural in the store; see the sortedness invariant) ---- *)
Fixpoint denote (s : store) (n : nat) (env : var -> bool) : bool :=
  match s with
  | [] => Nat.eqb n 1
  | (m, (v, l, h)) :: r =>
      if Nat.eqb n m then (if env v then denote r h env else denote r l env)
      else denote r n env
  end.

(* ---- BDD.py apply / compute (memo r_cache omitted: pure optimisation) ---- *)
Definition nvar (s : store) (n : nat) : var := match lookup s n with Some (v, _, _) => v | None => 0 end.
Definition nlow (s : store) (n : nat) : nat := match lookup s n with Some (_, l, _) => l | None => 0 end.
Definition nhigh (s : store) (n : nat) : nat := match lookup s n with Some (_, _, h) => h | None => 0 end.
Definition term_of (b : bool) : nat := if b then 1 else 0.
Definition val_of (n : nat) : bool := Nat.eqb n 1.

Fixpoint apply (fuel : nat) (O : ordering) (op : bool -> bool -> bool) (s : store) (a b : nat)
  : result (store * nat) :=
  match fuel with
  | 0 => OutOfFuel
  | S f =>
      let sons_b (_ : unit) :=                              (* BDD_and_BDDsons *)
          rbind (apply f O op s a (nlow s b)) (fun '(s1, l) =>
          rbind (apply f O op s1 a (nhigh s b)) (fun '(s2, h) => Ok (mknode s2 (nvar s b) l h))) in
      let sons_a (_ : unit) :=                              (* BDDsons_and_BDD *)
          rbind (apply f O op s (nlow s a) b) (fun '(s1, l) =>
          rbind (apply f O op s1 (nhigh s a) b) (fun '(s2, h) => Ok (mknode s2 (nvar s a) l h))) in
      let sons_ab (_ : unit) :=                             (* BDDsons_and_BDDsons *)
          rbind (apply f O op s (nlow s a) (nlow s b)) (fun '(s1, l) =>
          rbind (apply f O op s1 (nhigh s a) (nhigh s b)) (fun '(s2, h) => Ok (mknode s2 (nvar s a) l h))) in
      if is_terminal a then
        if is_terminal b then Ok (s, term_of (op (val_of a) (val_of b)))
        else sons_b tt
      else if is_terminal b || in_order O (nvar s a) (nvar s b) then sons_a tt
      else if Nat.eqb (nvar s a) (nvar s b) then sons_ab tt
      else if in_order O (nvar s b) (nvar s a) then sons_b tt
      else RuntimeErr
  end.

(* cache_restrict / compute_restrict *)
Fixpoint cofactor (fuel : nat) (s : store) (n : nat) (v : var) (b : bool) : result (store * nat) :=
  match fuel with
  | 0 => OutOfFuel
  | S f =>
      if is_terminal n then Ok (s, n)
      else if Nat.eqb (nvar s n) v then cofactor f s (if b then nhigh s n else nlow s n) v b
      else rbind (cofactor f s (nlow s n) v b) (fun '(s1, l) =>
           rbind (cofactor f s1 (nhigh s n) v b) (fun '(s2, h) => Ok (mknode s2 (nvar s n) l h)))
  end.

(* __invert__ *)
Fixpoint neg (fuel : nat) (s : store) (n : nat) : result (store * nat) :=
  match fuel with
  | 0 => OutOfFuel
  | S f =>
      if is_terminal n then Ok (s, term_of (negb (val_of n)))
      else rbind (neg f s (nlow s n)) (fun '(s1, l) =>
           rbind (neg f s1 (nhigh s n)) (fun '(s2, h) => Ok (mknode s2 (nvar s n) l h)))
  end.

(* descendents / variables *)
Fixpoint desc (fuel : nat) (s : store) (n : nat) : list nat :=
  match fuel with
  | 0 => [n]
  | S f => if is_terminal n then [n]
           else n :: desc f s (nlow s n) ++ desc f s (nhigh s n)
  end.
Definition descendents (s : store) (n : nat) : list nat := dedup (desc n s n).
Definition variables (s : store) (n : nat) : list var :=
  dedup (map (nvar s) (filter (fun m => negb (is_terminal m)) (descendents s n))).

(* respect_ordering(O): RuntimeError when a variable is not in O; otherwise whether
   every node's variable strictly precedes the variables of its non-terminal sons *)
Fixpoint respects_ord (fuel : nat) (O : ordering) (s : store) (n : nat) : result bool :=
  match fuel with
  | 0 => OutOfFuel
  | S f =>
      if is_terminal n then Ok true
      else if negb (in_ord O (nvar s n)) then RuntimeErr
      else
        let son_ok (c : nat) := is_terminal c || in_order O (nvar s n) (nvar s c) in
        if negb (son_ok (nlow s n) && son_ok (nhigh s n)) then Ok false
        else rbind (respects_ord f O s (nhigh s n)) (fun bh =>
             if bh then respects_ord f O s (nlow s n) else Ok false)
  end.

(* fuel that always suffices: ids of children are smaller than the id of the parent *)
Definition nfuel (n : nat) : nat := S n.

(* ---- OBDD objects: (root, ordering) ---- *)
Definition obdd := (nat * ordering)%type.
Definition obdd_eq (a b : obdd) : bool := Nat.eqb (fst a) (fst b) && ordering_eqb (snd a) (snd b).

(* OBDD(node, ordering) with check_ordering *)
Definition obdd_of_node (s : store) (n : nat) (O : ordering) : result obdd :=
  rbind (respects_ord (nfuel n) O s n) (fun ok => if ok then Ok (n, O) else ValueErr).

(* OBDD.apply: orderings must be equal *)
Definition obdd_apply (op : bool -> bool -> bool) (s : store) (a b : obdd) : result (store * obdd) :=
  if negb (ordering_eqb (snd a) (snd b)) then RuntimeErr
  else rmap (fun '(s', n) => (s', (n, snd a)))
            (apply (nfuel (fst a) + nfuel (fst b)) (snd a) op s (fst a) (fst b)).
Definition obdd_neg (s : store) (a : obdd) : result (store * obdd) :=
  rbind (neg (nfuel (fst a)) s (fst a)) (fun '(s', n) =>
  rmap (fun o => (s', o)) (obdd_of_node s' n (snd a))).
Definition obdd_restrict (s : store) (a : obdd) (v : var) (b : bool) : result (store * obdd) :=
  rbind (cofactor (nfuel (fst a)) s (fst a) v b) (fun '(s', n) =>
  rmap (fun o => (s', o)) (obdd_of_node s' n (snd a))).

(* ---- garbage collection: keep what is reachable from the given roots ---- *)
Definition collect (s : store) (roots : list nat) : store :=
  let keep := flat_map (descendents s) roots in
  filter (fun p => memb (fst p) keep) s.
Definition live_count (s : store) : nat := List.length s.     (* live non-terminal nodes *)
(* no two live nodes with the same triple *)
Fixpoint no_dup_triples (s : store) : bool :=
  match s with
  | [] => true
  | (_, t) :: r => negb (existsb (fun p => triple_eqb t (snd p)) r) && no_dup_triples r
  end.
