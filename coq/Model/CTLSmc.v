(* CTLSmc.v — model of pyModelChecking/CTLS/model_checking.py: innermost-first
   elimination of quantified subformulas through fresh atomic propositions.
   Executable definitions only. *)
From PMC Require Export Model.LTLmc Model.Print.
From Coq Require Import String.
Local Open Scope string_scope.

(* _get_a_new_atomic_proposition_for(kripke, formula):
   '[' + str(formula) + ']', then '[' + that + '(i)]' for i = 0, 1, ... *)
Fixpoint fresh_from (fuel i : nat) (fstr : string) (used : list atom) : atom :=
  let cand := "[" ++ fstr ++ "(" ++ nat_to_string i ++ ")]" in
  match fuel with
  | 0 => cand
  | S n => if mema cand used then fresh_from n (S i) fstr used else cand
  end.
Definition fresh_name (L : lang) (K : kripke) (f : form) : atom :=
  let fstr := "[" ++ print L f ++ "]" in
  let used := all_labels K in
  if mema fstr used then fresh_from (List.length used) 0 fstr used else fstr.

(* can the tree be cast to CTL as a state formula? (CTL.modelcheck's guards) *)
Definition ctl_castable_state (f : form) : bool := ctl_state f.

Definition is_atomic (f : form) : bool := match f with FBool _ | FAtom _ => true | _ => false end.
Definition is_quantified (f : form) : bool := match f with FA _ | FE _ => true | _ => false end.

(* _remove_state_subformulas / _checkQuantifiedFormula (no fairness).
   [L] is the language of the formula object being processed (its printer decides the
   fresh names).  Returns the labelled structure and the rewritten formula. *)
Fixpoint elim (fuel : nat) (L : lang) (K : kripke) (f : form) {struct fuel}
  : result (kripke * form) :=
  match fuel with
  | 0 => OutOfFuel
  | S n =>
      let elim_list :=
          fix go (K : kripke) (fs : list form) : result (kripke * list form) :=
            match fs with
            | [] => Ok (K, [])
            | g :: r => rbind (elim n L K g) (fun '(K1, g') =>
                        rbind (go K1 r) (fun '(K2, r') => Ok (K2, g' :: r')))
            end in
      match f with
      | FBool _ | FAtom _ => Ok (K, f)
      | FA g | FE g =>
          let a := fresh_name L K f in
          rbind (check_quantified n L K f) (fun '(K1, Sat) => Ok (add_label K1 Sat a, FAtom a))
      | _ => rbind (elim_list K (children f)) (fun '(K1, gs) => Ok (K1, build (root_op f) gs))
      end
  end
with check_quantified (fuel : nat) (L : lang) (K : kripke) (f : form) {struct fuel}
  : result (kripke * list nat) :=
  match fuel with
  | 0 => OutOfFuel
  | S n =>
      match f with
      | FA g | FE g =>
          rbind (elim n L K g) (fun '(K1, g') =>
            let q := match f with FA _ => FA g' | _ => FE g' end in
            if ctl_castable_state q then rmap (fun Sat => (K1, Sat)) (ctl_modelcheck K1 q)
            else
              match f with
              | FA _ => rmap (fun Sat => (K1, Sat)) (ltl_modelcheck K1 q)
              | _ => (* E g  ~>  LNot(A(LNot g)), eliminated again, then CTL *)
                  rbind (elim n L K1 (LNot (FA (LNot g')))) (fun '(K2, h) =>
                    rmap (fun Sat => (K2, Sat)) (ctl_modelcheck K2 h))
              end)
      | _ => TypeErr
      end
  end.

Fixpoint size (f : form) : nat :=
  match f with
  | FBool _ | FAtom _ => 1
  | FNot g | FX g | FF g | FG g | FA g | FE g => S (size g)
  | FOr fs | FAnd fs => S (fold_right (fun g m => size g + m) 0 fs)
  | FImp g h | FU g h | FR g h => S (size g + size h)
  end.
Definition ctls_fuel (f : form) : nat := 4 * size f + 4.

(* CTLS.modelcheck(kripke, formula) for a formula object of language L in {CTLS, CTL, LTL} *)
Definition ctls_modelcheck_in (L : lang) (K : kripke) (f : form) : result (list nat) :=
  rbind (kclone K) (fun KC =>
  rbind (elim (ctls_fuel f) L KC f) (fun '(K1, h) => ctl_modelcheck K1 h)).
Definition ctls_modelcheck (K : kripke) (f : form) : result (list nat) := ctls_modelcheck_in CTLS K f.
