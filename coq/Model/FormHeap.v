(* FormHeap.v — a small HEAP model of the mutable formula OBJECTS of pyModelChecking/language.py.

   In the Python code a formula is an object graph: a LogicOperator / TemporalOperator /
   PathQuantifier node holds the list `self._subformula` of its operand OBJECTS, an
   `AtomicProposition` holds the mutable attribute `name`, a `Bool` the attribute `_value`.
   `clone()` copies every node recursively; `__hash__` is `hash(str(self))`, recomputed on
   every call, and `__eq__` compares the printed forms (Model/Print.v).  On the pure trees of
   Model/Syntax.v "clone() returns an equal formula that shares no mutable node with the
   original" and "a formula edited after it was hashed still hashes like an equal fresh
   formula" are vacuous.  Here every node lives in a heap cell, an operator cell holds the
   LOCATIONS of its operands, and the caller's edits of leaves WRITE cells: a shallow clone
   (`copy.copy(self)`) and a cached hash are expressible (and go wrong, see
   Proofs/FormHeapP.v).

   Same shape as Model/GraphHeap.v / Model/Heap.v.  Executable definitions only. *)
From PMC Require Export Model.Print.
From PMC Require Export Model.Heap.            (* [loc] *)
From Coq Require String.

(* ------------------------------------------------------------------ *)
(* heaps of formula nodes                                              *)
(* ------------------------------------------------------------------ *)
(* the operator classes (the leaves Bool / AtomicProposition are cells of their own) *)
Inductive optag := TNot | TOr | TAnd | TImp | TX | TF | TG | TU | TR | TA | TE.

Inductive fcell :=
| CBool (b : bool)                       (* Bool._value *)
| CAtom (a : atom)                       (* AtomicProposition.name *)
| COp (t : optag) (kids : list loc).     (* self._subformula: the operand OBJECTS *)

(* association list, newest binding first; a write conses a new binding *)
Definition fheap := list (loc * fcell).

Fixpoint fget (h : fheap) (l : loc) : option fcell :=
  match h with
  | [] => None
  | (x, c) :: r => if Nat.eqb x l then Some c else fget r l
  end.
Definition fset (h : fheap) (l : loc) (c : fcell) : fheap := (l, c) :: h.
Definition fallocatedb (h : fheap) (l : loc) : bool := memb l (map fst h).
(* a location greater than every allocated one *)
Definition ffresh (h : fheap) : loc := S (fold_right Nat.max 0 (map fst h)).
Definition falloc (h : fheap) (c : fcell) : fheap * loc :=
  let l := ffresh h in ((l, c) :: h, l).

(* ------------------------------------------------------------------ *)
(* the abstract value of an object: the tree below a location          *)
(* ------------------------------------------------------------------ *)
(* an operator node applied to the trees of its operands; None on an arity mismatch
   (no constructor of the library builds such a node) *)
Definition build_op (t : optag) (fs : list form) : option form :=
  match t, fs with
  | TNot, [g] => Some (FNot g)
  | TOr, _ => Some (FOr fs)
  | TAnd, _ => Some (FAnd fs)
  | TImp, [g; k] => Some (FImp g k)
  | TX, [g] => Some (FX g)
  | TF, [g] => Some (FF g)
  | TG, [g] => Some (FG g)
  | TU, [g; k] => Some (FU g k)
  | TR, [g; k] => Some (FR g k)
  | TA, [g] => Some (FA g)
  | TE, [g] => Some (FE g)
  | _, _ => None
  end.

Fixpoint omap_all {A B} (g : A -> option B) (l : list A) : option (list B) :=
  match l with
  | [] => Some []
  | x :: r =>
      match g x, omap_all g r with
      | Some y, Some ys => Some (y :: ys)
      | _, _ => None
      end
  end.

(* None: a dangling pointer, an arity mismatch, or not enough fuel (a cyclic object graph
   has no tree at any fuel) *)
Fixpoint fabs (fuel : nat) (h : fheap) (l : loc) : option form :=
  match fuel with
  | 0 => None
  | S n =>
      match fget h l with
      | None => None
      | Some (CBool b) => Some (FBool b)
      | Some (CAtom a) => Some (FAtom a)
      | Some (COp t kids) =>
          match omap_all (fabs n h) kids with
          | Some fs => build_op t fs
          | None => None
          end
      end
  end.
Definition fabs_all (fuel : nat) (h : fheap) (ks : list loc) : option (list form) :=
  omap_all (fabs fuel h) ks.

(* ------------------------------------------------------------------ *)
(* constructors / parsers: one NEW cell per node, operands first       *)
(* ------------------------------------------------------------------ *)
Section AllocList.
  Variable alloc1 : fheap -> form -> fheap * loc.
  Fixpoint falloc_list (h : fheap) (fs : list form) : fheap * list loc :=
    match fs with
    | [] => (h, [])
    | g :: r =>
        let '(h1, l) := alloc1 h g in
        let '(h2, ls) := falloc_list h1 r in
        (h2, l :: ls)
    end.
End AllocList.

Fixpoint falloc_form (h : fheap) (f : form) {struct f} : fheap * loc :=
  let un (t : optag) (g : form) : fheap * loc :=
      let '(h1, l) := falloc_form h g in falloc h1 (COp t [l]) in
  let bin (t : optag) (g k : form) : fheap * loc :=
      let '(h1, l1) := falloc_form h g in
      let '(h2, l2) := falloc_form h1 k in
      falloc h2 (COp t [l1; l2]) in
  let nary (t : optag) (fs : list form) : fheap * loc :=
      let '(h1, ls) := falloc_list falloc_form h fs in falloc h1 (COp t ls) in
  match f with
  | FBool b => falloc h (CBool b)
  | FAtom a => falloc h (CAtom a)
  | FNot g => un TNot g
  | FOr fs => nary TOr fs
  | FAnd fs => nary TAnd fs
  | FImp g k => bin TImp g k
  | FX g => un TX g
  | FF g => un TF g
  | FG g => un TG g
  | FU g k => bin TU g k
  | FR g k => bin TR g k
  | FA g => un TA g
  | FE g => un TE g
  end.
Definition falloc_forms (h : fheap) (fs : list form) : fheap * list loc :=
  falloc_list falloc_form h fs.

(* ------------------------------------------------------------------ *)
(* clone(): read the tree, build it again — every node is copied        *)
(* ------------------------------------------------------------------ *)
Definition clone_fh (fuel : nat) (h : fheap) (l : loc) : option (fheap * loc) :=
  match fabs fuel h l with
  | Some f => Some (falloc_form h f)
  | None => None
  end.

(* ------------------------------------------------------------------ *)
(* the caller's edits of leaves                                        *)
(* ------------------------------------------------------------------ *)
Inductive fwrite :=
| WRename (l : loc) (a : atom)     (* p.name = a      on an AtomicProposition object *)
| WFlip (l : loc).                 (* b._value = not b._value      on a Bool object *)

Definition wloc (w : fwrite) : loc := match w with WRename l _ => l | WFlip l => l end.

(* the attribute only exists on an object of the right class: otherwise nothing happens *)
Definition apply_fwrite (h : fheap) (w : fwrite) : fheap :=
  match w with
  | WRename l a =>
      match fget h l with Some (CAtom _) => fset h l (CAtom a) | _ => h end
  | WFlip l =>
      match fget h l with Some (CBool b) => fset h l (CBool (negb b)) | _ => h end
  end.
Definition apply_fwrites (h : fheap) (ws : list fwrite) : fheap := fold_left apply_fwrite ws h.

(* ------------------------------------------------------------------ *)
(* __eq__ / __hash__: by the CURRENT printed form                      *)
(* ------------------------------------------------------------------ *)
Definition eq_fh (L : lang) (fuel : nat) (h : fheap) (a b : loc) : bool :=
  match fabs fuel h a, fabs fuel h b with
  | Some f, Some g => eq_obj (L, f) (L, g)
  | _, _ => false
  end.
Definition hash_fh (L : lang) (fuel : nat) (h : fheap) (a : loc) : option String.string :=
  match fabs fuel h a with
  | Some f => Some (hash_obj (L, f))
  | None => None
  end.

(* ------------------------------------------------------------------ *)
(* WRONG variants                                                      *)
(* ------------------------------------------------------------------ *)
(* `copy.copy(self)`: a new ROOT object with the same attribute values — for an operator
   the same list of operand objects *)
Definition clone_shallow_fh (h : fheap) (l : loc) : option (fheap * loc) :=
  match fget h l with
  | Some c => Some (falloc h c)
  | None => None
  end.

(* a memoising __hash__: the object carries a slot; the first call prints the formula and
   remembers the string, later calls return the remembered string *)
Definition hobj := (loc * option String.string)%type.
Definition hash_cached_fh (L : lang) (fuel : nat) (h : fheap) (o : hobj)
  : hobj * option String.string :=
  match snd o with
  | Some s => (o, Some s)
  | None =>
      match fabs fuel h (fst o) with
      | Some f => ((fst o, Some (print L f)), Some (print L f))
      | None => (o, None)
      end
  end.
