(* Parse.v — model of the four formula parsers of pyModelChecking
   (parser.py, PL/parser.py, CTLS/parser.py, CTL/parser.py, LTL/parser.py): Lark LALR(1)
   grammars read through Lark's *contextual lexer*, followed by the AST transformers
   (rule -> constructor of the parser's language module; single-child rules pass the
   child through; e_string strips the two quotes and does not unescape).
   Executable definitions only.

   What Lark does, and how it is modelled.
   ---------------------------------------
   The contextual lexer scans the next token with the terminals that have an action in the
   current LALR state (plus the ignored WS).  In these grammars every parser state is of one
   of two kinds:

   * OPERAND position (start, after "(", after a prefix or binary operator): the state has
     no completed item, so the acceptable terminals are exactly FIRST of what is expected:
     the identifier regex, ESCAPED_STRING, "(", "true", "false", "not"/"~" and the prefix
     keywords (A E X F G) that may start the expected nonterminal.  Lark tries the regex
     first: it takes the MAXIMAL word [a-zA-Z_][a-zA-Z_0-9]* and then retypes it as a
     keyword iff the whole word is spelled like a keyword terminal acceptable in this state
     (lexer.py _create_unless / UnlessCallback); otherwise it stays an identifier, i.e. an
     atomic proposition — even when it is spelled like a keyword of the language.
   * OPERATOR position (after a complete operand): the identifier regex is not acceptable;
     the acceptable keywords (or and U R) are plain string patterns here and match as a
     PREFIX of the text: "p orb" is lexed  p / or / b.  The rest of the word is lexed next,
     in operand position.  LALR look-ahead merging can make such a state accept a keyword
     that the exact left context does not allow, but then the parser fails on that token,
     so accept/reject and the tree are those of the exact (viable-prefix) contexts used below.

   Hence: [lex] is context free (maximal words, not classified); the parsers classify a word
   where they consume it: [classify] in operand position, [binop] (with prefix splitting) in
   operator position.  The only LALR conflict (PL and CTL*: shift ")" or reduce
   u_formula -> s_formula after "(" s_formula) is resolved by Lark as shift and both
   derivations give the same tree. *)
From PMC Require Export Model.Syntax.
From Coq Require Import String Ascii.
Local Open Scope string_scope.

(* ------------------------------------------------------------------------------------ *)
(* tokens and the lexer                                                                  *)
(* ------------------------------------------------------------------------------------ *)
Inductive sym := SNot | SOr | SAnd | SImp.            (*  ~   |   &   -->  *)
Inductive ptok :=
| PWord (w : string)        (* maximal [a-zA-Z_][a-zA-Z_0-9]*, NOT yet keyword/identifier *)
| PQuoted (s : string)      (* ESCAPED_STRING, the text between the two quotes (raw)      *)
| PLp | PRp
| PSym (y : sym).

Definition code (c : ascii) : nat := nat_of_ascii c.
(* common.WS = /[ \t\f\r\n]/+ *)
Definition is_ws (c : ascii) : bool :=
  let n := code c in
  Nat.eqb n 32 || Nat.eqb n 9 || Nat.eqb n 10 || Nat.eqb n 12 || Nat.eqb n 13.
Definition is_digit (c : ascii) : bool := let n := code c in Nat.leb 48 n && Nat.leb n 57.
Definition is_word_start (c : ascii) : bool :=
  let n := code c in
  (Nat.leb 65 n && Nat.leb n 90) || (Nat.leb 97 n && Nat.leb n 122) || Nat.eqb n 95.
Definition is_word_char (c : ascii) : bool := is_word_start c || is_digit c.

Definition snoc (s : string) (c : ascii) : string := s ++ String c "".

(* the lexer is a finite-state transducer over the characters *)
Inductive lstate :=
| LS0                                   (* between tokens *)
| LSWord (acc : string)                 (* inside a word *)
| LSQuote (acc : string) (esc : bool)   (* inside "...", esc = previous char is an unescaped \ *)
| LSDash1 | LSDash2.                    (* after "-", after "--" *)

(* first character of a token *)
Definition lex_start (c : ascii) : option (list ptok * lstate) :=
  if is_ws c then Some ([], LS0)
  else if is_word_start c then Some ([], LSWord (String c ""))
  else if Ascii.eqb c "(" then Some ([PLp], LS0)
  else if Ascii.eqb c ")" then Some ([PRp], LS0)
  else if Ascii.eqb c "~" then Some ([PSym SNot], LS0)
  else if Ascii.eqb c "|" then Some ([PSym SOr], LS0)
  else if Ascii.eqb c "&" then Some ([PSym SAnd], LS0)
  else if Ascii.eqb c "-" then Some ([], LSDash1)
  else if Ascii.eqb c """" then Some ([], LSQuote "" false)
  else None.

(* ESCAPED_STRING = "\"" /.*?/ /(?<!\\)(\\\\)*?/ "\"" : the closing quote is the first quote
   preceded by an even number of backslashes, i.e. the first one not escaped when a backslash
   escapes the next character; "." does not match a newline. *)
Definition lex_step (st : lstate) (c : ascii) : option (list ptok * lstate) :=
  match st with
  | LS0 => lex_start c
  | LSWord acc =>
      if is_word_char c then Some ([], LSWord (snoc acc c))
      else match lex_start c with
           | Some (out, st') => Some (PWord acc :: out, st')
           | None => None
           end
  | LSQuote acc esc =>
      if Ascii.eqb c "010" then None
      else if esc then Some ([], LSQuote (snoc acc c) false)
      else if Ascii.eqb c "\" then Some ([], LSQuote (snoc acc c) true)
      else if Ascii.eqb c """" then Some ([PQuoted acc], LS0)
      else Some ([], LSQuote (snoc acc c) false)
  | LSDash1 => if Ascii.eqb c "-" then Some ([], LSDash2) else None
  | LSDash2 => if Ascii.eqb c ">" then Some ([PSym SImp], LS0) else None
  end.

Definition lex_end (st : lstate) : option (list ptok) :=
  match st with
  | LS0 => Some []
  | LSWord acc => Some [PWord acc]
  | _ => None                           (* unterminated quote, "-" or "--" at the end *)
  end.

Fixpoint lex_go (st : lstate) (s : string) : option (list ptok) :=
  match s with
  | EmptyString => lex_end st
  | String c r =>
      match lex_step st c with
      | Some (out, st') => option_map (app out) (lex_go st' r)
      | None => None
      end
  end.

(* None = a character that starts no token of the grammar (in any parser state) *)
Definition lex (s : string) : option (list ptok) := lex_go LS0 s.

(* ------------------------------------------------------------------------------------ *)
(* classification of a token where it is consumed                                        *)
(* ------------------------------------------------------------------------------------ *)
Inductive uop := UNot | UX | UF | UG | UA | UE.          (* prefix operators *)
Inductive bop := BOr | BAnd | BImp | BU | BR.            (* infix operators  *)

Definition bop_eqb (a b : bop) : bool :=
  match a, b with
  | BOr, BOr | BAnd, BAnd | BImp, BImp | BU, BU | BR, BR => true
  | _, _ => false
  end.

Definition apply_uop (u : uop) (f : form) : form :=
  match u with
  | UNot => FNot f | UX => FX f | UF => FF f | UG => FG f | UA => FA f | UE => FE f
  end.

(* the alphabetic spellings (class attribute `symbols` of the operator classes) *)
Definition uop_of_word (w : string) : option uop :=
  if w =? "not" then Some UNot
  else if w =? "X" then Some UX
  else if w =? "F" then Some UF
  else if w =? "G" then Some UG
  else if w =? "A" then Some UA
  else if w =? "E" then Some UE
  else None.

(* OPERAND position.  [ok u] = the keyword terminal of prefix operator u is acceptable in
   the current parser state.  "true"/"false" (and the symbol "~") are acceptable in every
   operand position of the four grammars. *)
Inductive head := HBool (b : bool) | HAtom (a : atom) | HPre (u : uop) | HLp | HBad.

Definition classify (ok : uop -> bool) (t : ptok) : head :=
  match t with
  | PWord w =>
      if w =? "true" then HBool true
      else if w =? "false" then HBool false
      else match uop_of_word w with
           | Some u => if ok u then HPre u else HAtom w      (* contextual keyword resolution *)
           | None => HAtom w
           end
  | PQuoted s => HAtom s
  | PSym SNot => HPre UNot
  | PLp => HLp
  | PRp | PSym _ => HBad
  end.

(* OPERATOR position.  [strip_prefix k w] = Some r iff w = k ++ r. *)
Fixpoint strip_prefix (k w : string) : option string :=
  match k with
  | EmptyString => Some w
  | String a k' =>
      match w with
      | EmptyString => None
      | String b w' => if Ascii.eqb a b then strip_prefix k' w' else None
      end
  end.

(* the rest of a split word is lexed next (in operand position, by the identifier regex):
   it must be empty or start like an identifier; a digit starts no token *)
Definition rest_ok (r : string) : bool :=
  match r with
  | EmptyString => true
  | String c _ => negb (is_digit c)
  end.

(* [ur] = the grammar has U / R at this level *)
Definition split_kw (ur : bool) (w : string) : option (bop * string) :=
  let alt (k : string) (b : bop) (other : option (bop * string)) :=
      match strip_prefix k w with
      | Some r => if rest_ok r then Some (b, r) else None
      | None => other
      end in
  alt "or" BOr (alt "and" BAnd (if ur then alt "U" BU (alt "R" BR None) else None)).

(* the infix operator at the head of the token list, and the tokens after it *)
Definition binop (ur : bool) (ts : list ptok) : option (bop * list ptok) :=
  match ts with
  | PSym SOr :: r => Some (BOr, r)
  | PSym SAnd :: r => Some (BAnd, r)
  | PSym SImp :: r => Some (BImp, r)
  | PWord w :: r =>
      match split_kw ur w with
      | Some (b, EmptyString) => Some (b, r)
      | Some (b, rest) => Some (b, PWord rest :: r)
      | None => None
      end
  | _ => None
  end.

(* ------------------------------------------------------------------------------------ *)
(* parsing                                                                               *)
(* ------------------------------------------------------------------------------------ *)
Definition pres (A : Type) : Type := result (A * list ptok).    (* value and remaining tokens *)

Definition expect_rp {A} (x : A) (ts : list ptok) : pres A :=
  match ts with
  | PRp :: r => Ok (x, r)
  | _ => ParseErr
  end.

(* what may follow a first operand f:
     f (or x)+  -> Or(f, x, ...)      f (and x)+ -> And(f, x, ...)      [one n-ary node]
     f --> x    -> Imply(f, x)        f U x -> U(f, x)    f R x -> R(f, x)   [iff ur]
     nothing    -> f
   [operand] parses one operand, [chain op] the remaining "(op x)*" of an n-ary chain.
   Whatever comes next is left to the caller, who expects ")" or the end of the input:
   so  p or q and r,  p --> q --> r,  p U q U r  are rejected. *)
Definition tail (ur : bool) (operand : list ptok -> pres form)
           (chain : bop -> list ptok -> pres (list form))
           (f : form) (ts : list ptok) : pres form :=
  match binop ur ts with
  | None => Ok (f, ts)
  | Some (BOr, r) =>
      rbind (operand r) (fun '(g, r1) =>
      rbind (chain BOr r1) (fun '(gs, r2) => Ok (FOr (f :: g :: gs), r2)))
  | Some (BAnd, r) =>
      rbind (operand r) (fun '(g, r1) =>
      rbind (chain BAnd r1) (fun '(gs, r2) => Ok (FAnd (f :: g :: gs), r2)))
  | Some (BImp, r) => rbind (operand r) (fun '(g, r1) => Ok (FImp f g, r1))
  | Some (BU, r) => rbind (operand r) (fun '(g, r1) => Ok (FU f g, r1))
  | Some (BR, r) => rbind (operand r) (fun '(g, r1) => Ok (FR f g, r1))
  end.

(* ---- PL, CTL* and LTL share one shape ------------------------------------------------
     u ::= true | false | atom | pre u | "(" p ")"          (u_formula; s_formula is a part of it)
     p ::= u | u (or u)+ | u (and u)+ | u --> u | u U u | u R u       (b_formula / p_formula)
   with  pre = not                  and no U, R     for PL
         pre = not X F G A E                        for CTL*  (A u, E u are s_formula rules)
         pre = not X F G                            for LTL   (A only at the very start)     *)
Definition pre_ok (L : lang) (u : uop) : bool :=
  match L, u with
  | _, UNot => true
  | PL, _ => false
  | CTLS, _ => true
  | LTL, (UA | UE) => false
  | LTL, _ => true
  | CTL, _ => false                                   (* CTL has its own parser below *)
  end.
Definition has_ur (L : lang) : bool := match L with PL => false | _ => true end.

Fixpoint gu (L : lang) (n : nat) (ts : list ptok) {struct n} : pres form :=
  match n with
  | 0 => OutOfFuel
  | S n' =>
      match ts with
      | [] => ParseErr
      | t :: r =>
          match classify (pre_ok L) t with
          | HBool b => Ok (FBool b, r)                                 (* "true" | "false" *)
          | HAtom a => Ok (FAtom a, r)                                 (* a_prop *)
          | HPre u => rbind (gu L n' r) (fun '(f, r1) => Ok (apply_uop u f, r1))   (* pre u *)
          | HLp => rbind (gp L n' r) (fun '(f, r1) => expect_rp f r1)  (* "(" p ")" *)
          | HBad => ParseErr
          end
      end
  end
with gp (L : lang) (n : nat) (ts : list ptok) {struct n} : pres form :=
  match n with
  | 0 => OutOfFuel
  | S n' => rbind (gu L n' ts) (fun '(f, r) => tail (has_ur L) (gu L n') (gchain L n') f r)
  end
with gchain (L : lang) (n : nat) (op : bop) (ts : list ptok) {struct n} : pres (list form) :=
  match n with
  | 0 => OutOfFuel
  | S n' =>
      match binop false ts with
      | Some (op', r) =>
          if bop_eqb op' op
          then rbind (gu L n' r) (fun '(g, r1) =>
               rbind (gchain L n' op r1) (fun '(gs, r2) => Ok (g :: gs, r2)))
          else Ok ([], ts)
      | None => Ok ([], ts)
      end
  end.

(* ---- CTL -----------------------------------------------------------------------------
     s ::= true | false | atom | A p | E p | not s | "(" u ")"
     u ::= s | s (or s)+ | s (and s)+ | s --> s
     p ::= X s | F s | G s | s U s | s R s | "(" p ")"
     formula ::= p | u
   [cs] / [cu] parse s / u; X F G are NOT keywords there.  [cf] parses "p | u" — this is what
   is expected at the start, after A / E (where only a p is then accepted) and after a "("
   met in such a position; X F G are keywords at its first token only.  A result of [cf]
   is a path formula (came from p) iff its root is a temporal operator. *)
Definition ctl_s_ok (u : uop) : bool := match u with UNot | UA | UE => true | _ => false end.
Definition ctl_p_ok (u : uop) : bool := true.
Definition is_path_root (f : form) : bool := is_temporal_op (root_op f).

Fixpoint cs (n : nat) (ts : list ptok) {struct n} : pres form :=
  match n with
  | 0 => OutOfFuel
  | S n' =>
      match ts with
      | [] => ParseErr
      | t :: r =>
          match classify ctl_s_ok t with
          | HBool b => Ok (FBool b, r)
          | HAtom a => Ok (FAtom a, r)
          | HPre UNot => rbind (cs n' r) (fun '(f, r1) => Ok (FNot f, r1))          (* not s *)
          | HPre UA => rbind (cf n' r) (fun '(f, r1) =>                             (* A p *)
                         if is_path_root f then Ok (FA f, r1) else ParseErr)
          | HPre UE => rbind (cf n' r) (fun '(f, r1) =>                             (* E p *)
                         if is_path_root f then Ok (FE f, r1) else ParseErr)
          | HPre _ => ParseErr                                                      (* unreachable *)
          | HLp => rbind (cu n' r) (fun '(f, r1) => expect_rp f r1)                 (* "(" u ")" *)
          | HBad => ParseErr
          end
      end
  end
with cu (n : nat) (ts : list ptok) {struct n} : pres form :=
  match n with
  | 0 => OutOfFuel
  | S n' => rbind (cs n' ts) (fun '(f, r) => tail false (cs n') (cchain n') f r)
  end
with cchain (n : nat) (op : bop) (ts : list ptok) {struct n} : pres (list form) :=
  match n with
  | 0 => OutOfFuel
  | S n' =>
      match binop false ts with
      | Some (op', r) =>
          if bop_eqb op' op
          then rbind (cs n' r) (fun '(g, r1) =>
               rbind (cchain n' op r1) (fun '(gs, r2) => Ok (g :: gs, r2)))
          else Ok ([], ts)
      | None => Ok ([], ts)
      end
  end
with cf (n : nat) (ts : list ptok) {struct n} : pres form :=
  match n with
  | 0 => OutOfFuel
  | S n' =>
      match ts with
      | [] => ParseErr
      | t :: r =>
          match classify ctl_p_ok t with
          | HPre UX => rbind (cs n' r) (fun '(f, r1) => Ok (FX f, r1))              (* X s *)
          | HPre UF => rbind (cs n' r) (fun '(f, r1) => Ok (FF f, r1))              (* F s *)
          | HPre UG => rbind (cs n' r) (fun '(f, r1) => Ok (FG f, r1))              (* G s *)
          | HLp =>
              (* "(" p ")" is a p;  "(" u ")" is an s, which may continue as below *)
              rbind (cf n' r) (fun '(f, r1) =>
              rbind (expect_rp f r1) (fun '(f, r2) =>
                if is_path_root f then Ok (f, r2)
                else tail true (cs n') (cchain n') f r2))
          | HBad => ParseErr
          | _ =>
              (* an s (its first token is classified the same way by [cs]), then
                 s U s | s R s (a p)  or  s (or s)+ | s (and s)+ | s --> s | s  (a u) *)
              rbind (cs n' ts) (fun '(f, r1) => tail true (cs n') (cchain n') f r1)
          end
      end
  end.

(* ---- entry points ---------------------------------------------------------------------- *)
Definition tok_size (t : ptok) : nat :=
  match t with PWord w => S (String.length w) | _ => 1 end.
Definition toks_size (ts : list ptok) : nat := fold_right (fun t m => tok_size t + m) 0 ts.
(* every call consumes input or is followed by one that does: depth <= 2 * size + 2 *)
Definition parse_fuel (ts : list ptok) : nat := 2 * toks_size ts + 2.

(* the start rule must cover the whole input *)
Definition finish (r : pres form) : result form :=
  match r with
  | Ok (f, []) => Ok f
  | Ok (_, _ :: _) => ParseErr
  | TypeErr => TypeErr | RuntimeErr => RuntimeErr | SyntaxErr => SyntaxErr
  | ValueErr => ValueErr | ParseErr => ParseErr | OutOfFuel => OutOfFuel
  end.

Definition parse (L : lang) (ts : list ptok) : result form :=
  let n := parse_fuel ts in
  match L with
  | PL => finish (gp PL n ts)                               (* formula: b_formula *)
  | CTLS => finish (gp CTLS n ts)                           (* formula: p_formula *)
  | CTL => finish (cf n ts)                                 (* formula: p_formula | u_formula *)
  | LTL =>                                                  (* formula: s_formula | p_formula *)
      match ts with
      | PWord w :: r =>
          if w =? "A"                                       (* s_formula: "A" u_formula *)
          then finish (rbind (gu LTL n r) (fun '(f, r1) => Ok (FA f, r1)))
          else finish (gp LTL n ts)
      | _ => finish (gp LTL n ts)
      end
  end.

Definition parse_string (L : lang) (s : string) : result form :=
  match lex s with
  | Some ts => parse L ts
  | None => ParseErr
  end.
