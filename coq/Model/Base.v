(* Base.v — shared executable helpers for the models of pyModelChecking.
   Executable definitions only; no proofs here (they live under Proofs/). *)
From Coq Require Export List Arith Bool.
From Coq Require String Ascii.
Export ListNotations.
Open Scope list_scope.

(* Python exceptions as values.  [OutOfFuel] never corresponds to a Python
   behaviour: every theorem about a fuelled function proves it cannot occur. *)
Inductive result (A : Type) : Type :=
| Ok (a : A)
| TypeErr
| RuntimeErr
| SyntaxErr
| ValueErr
| ParseErr
| OutOfFuel.
Arguments Ok {A} a.
Arguments TypeErr {A}.
Arguments RuntimeErr {A}.
Arguments SyntaxErr {A}.
Arguments ValueErr {A}.
Arguments ParseErr {A}.
Arguments OutOfFuel {A}.

Definition rbind {A B} (r : result A) (k : A -> result B) : result B :=
  match r with
  | Ok a => k a
  | TypeErr => TypeErr | RuntimeErr => RuntimeErr | SyntaxErr => SyntaxErr
  | ValueErr => ValueErr | ParseErr => ParseErr | OutOfFuel => OutOfFuel
  end.
Definition rmap {A B} (f : A -> B) (r : result A) : result B := rbind r (fun a => Ok (f a)).

Fixpoint rmapM {A B} (f : A -> result B) (l : list A) : result (list B) :=
  match l with
  | [] => Ok []
  | x :: r => rbind (f x) (fun y => rbind (rmapM f r) (fun ys => Ok (y :: ys)))
  end.

(* states / graph nodes / BDD ids are naturals *)
Definition memb (x : nat) (l : list nat) : bool := existsb (Nat.eqb x) l.

(* keep the LAST occurrence-free prefix order of the first occurrences:
   [dedup] keeps the last occurrence of each element (as in the prototype used
   for the correspondence; only set-level facts about it are ever used). *)
Fixpoint dedup (l : list nat) : list nat :=
  match l with
  | [] => []
  | x :: r => if memb x r then dedup r else x :: dedup r
  end.

Definition inter (a b : list nat) : list nat := filter (fun x => memb x b) a.
Definition diff (a b : list nat) : list nat := filter (fun x => negb (memb x b)) a.
Definition subset (a b : list nat) : bool := forallb (fun x => memb x b) a.

(* atoms are character strings *)
Definition atom := String.string.
Definition mema (a : atom) (l : list atom) : bool := existsb (String.eqb a) l.
Fixpoint dedupa (l : list atom) : list atom :=
  match l with
  | [] => []
  | x :: r => if mema x r then dedupa r else x :: dedupa r
  end.
