(* Kripke.v — model of pyModelChecking/kripke.py (after fix F2).
   Executable definitions only. *)
From PMC Require Export Model.Scc.
From Coq Require Import DecimalString.
From Coq Require Import String.

Record kripke := mkK { kg : graph; kinit : list nat; klab : list (nat * list atom) }.

Definition states (K : kripke) : list nat := nodes (kg K).
Fixpoint lookup_lab (l : list (nat * list atom)) (s : nat) : list atom :=
  match l with
  | [] => []
  | (x, a) :: r => if Nat.eqb x s then a else lookup_lab r s
  end.
Definition labels_of (K : kripke) (s : nat) : list atom := lookup_lab (klab K) s.

(* Kripke.__init__(S, S0, R, L) with L a dict state -> iterable of atoms.
   RuntimeError iff some node is not the source of an edge. *)
Definition mk_kripke (S S0 : list nat) (R : list (nat * nat)) (L : list (nat * list atom))
  : result kripke :=
  let g := mk_graph S R in
  if forallb (fun v => memb v (sources g)) (nodes g)
  then Ok (mkK g (filter (fun v => memb v S0) (nodes g))
               (map (fun v => (v, dedupa (lookup_lab L v))) (nodes g)))
  else RuntimeErr.

(* labels(state) / next(src): RuntimeError for a non-state *)
Definition labels_r (K : kripke) (s : nat) : result (list atom) :=
  if memb s (states K) then Ok (labels_of K s) else RuntimeErr.
Definition knext_r (K : kripke) (s : nat) : result (list nat) := next_r (kg K) s.
(* labels() : every atom labelling some state *)
Definition all_labels (K : kripke) : list atom := dedupa (flat_map snd (klab K)).

Definition kclone (K : kripke) : result kripke :=
  mk_kripke (states K) (kinit K) (edges (kg K)) (klab K).

(* get_substructure(V) (after F2: labels are copied from self._labels) *)
Definition substructure (K : kripke) (V : list nat) : result kripke :=
  mk_kripke (filter (fun v => memb v V) (states K))
            (filter (fun v => memb v V) (kinit K))
            (filter (fun e => memb (fst e) V && memb (snd e) V) (edges (kg K)))
            (filter (fun p => memb (fst p) V) (klab K)).

(* labels(s).add(a) for every s in S *)
Definition add_label (K : kripke) (S : list nat) (a : atom) : kripke :=
  mkK (kg K) (kinit K)
      (map (fun p => if memb (fst p) S && negb (mema a (snd p)) then (fst p, snd p ++ [a]) else p)
           (klab K)).

(* get_fair_states(F) — faithful to the code, including D8: an SCC is rejected when
   `len(scc) == 1 or v not in next(v)` for its first-yielded node v *)
Definition is_a_fair_SCC (K : kripke) (F : list (list nat)) (scc : list nat) : bool :=
  match scc with
  | [] => false
  | v :: r =>
      if (match r with [] => true | _ => false end) || negb (memb v (succs (kg K) v)) then false
      else forallb (fun P => negb (match inter scc P with [] => true | _ => false end)) F
  end.
Definition get_fair_states (K : kripke) (F : list (list nat)) : list nat :=
  let Fset := flat_map (fun c => if is_a_fair_SCC K F c then c else []) (compute_SCCs (kg K)) in
  reach (reversed (kg K)) Fset.

(* the repaired triviality test: what a fix of D8 must compute *)
Definition nontrivial (g : graph) (c : list nat) : bool :=
  match c with
  | [] => false
  | v :: r => match r with [] => memb v (succs g v) | _ => true end
  end.
Definition fair_states_ref (K : kripke) (F : list (list nat)) : list nat :=
  let Fset := flat_map (fun c => if nontrivial (kg K) c &&
                                    forallb (fun P => negb (match inter c P with [] => true | _ => false end)) F
                                 then c else []) (compute_SCCs (kg K)) in
  reach (reversed (kg K)) Fset.

(* label_fair_states: 'fair', 'fair0', 'fair1', ... first one not in labels() *)
Definition nat_to_string (n : nat) : String.string := NilEmpty.string_of_uint (Nat.to_uint n).
Fixpoint fair_name (fuel i : nat) (used : list atom) : atom :=
  let cand := String.append "fair"%string (nat_to_string i) in
  match fuel with
  | 0 => cand
  | S f => if mema cand used then fair_name f (S i) used else cand
  end.
Definition fair_label (K : kripke) : atom :=
  let used := all_labels K in
  if mema "fair"%string used then fair_name (List.length used) 0 used else "fair"%string.
Definition label_fair_states (K : kripke) (F : list (list nat)) : kripke * atom :=
  let a := fair_label K in (add_label K (get_fair_states K F) a, a).
