(* BExp.v — model of the expression / lambda notation of OBDD.py (parse_binary_expr,
   BinaryParser, after fixes F5 and F7) and of the printers
   BDDNonTerminalNode.__str__ (after fix F6) and OBDD.__str__.
   Python's `ast` module is trusted to turn text into the AST shapes below; the
   printer is modelled down to the token list and re-parsed by [pyparse], a
   precedence parser for the printed sublanguage (| lowest, then &, then ~).
   Executable definitions only. *)
From PMC Require Export Model.Bdd.

Inductive bexp : Type :=
| BVar (v : var)                 (* ast.Name *)
| BConst (b : bool)              (* ast.Constant 0/1, names True/False *)
| BNot (e : bexp)                (* ast.UnaryOp Invert / Not *)
| BAnd (e1 e2 : bexp)            (* ast.BinOp BitAnd *)
| BOr (e1 e2 : bexp)             (* ast.BinOp BitOr *)
| BAndL (es : list bexp)         (* ast.BoolOp And *)
| BOrL (es : list bexp)          (* ast.BoolOp Or *)
| BBad.                          (* any other syntax: SyntaxError *)

Definition andb_op (a b : bool) := a && b.
Definition orb_op (a b : bool) := a || b.

(* parse_binary_expr(ordering, node): every intermediate result is an OBDD built with
   the ordering check, so a variable outside the ordering raises RuntimeError *)
Fixpoint bbuild (O : ordering) (s : store) (e : bexp) {struct e} : result (store * nat) :=
  let and2 (s : store) (a b : nat) := apply (nfuel a + nfuel b) O andb_op s a b in
  let or2 (s : store) (a b : nat) := apply (nfuel a + nfuel b) O orb_op s a b in
  match e with
  | BVar v => if in_ord O v then Ok (mknode s v 0 1) else RuntimeErr
  | BConst b => Ok (s, term_of b)
  | BNot e1 => rbind (bbuild O s e1) (fun '(s1, n) => neg (nfuel n) s1 n)
  | BAnd e1 e2 => rbind (bbuild O s e1) (fun '(s1, a) =>
                  rbind (bbuild O s1 e2) (fun '(s2, b) => and2 s2 a b))
  | BOr e1 e2 => rbind (bbuild O s e1) (fun '(s1, a) =>
                 rbind (bbuild O s1 e2) (fun '(s2, b) => or2 s2 a b))
  | BAndL es =>
      (fix go (s : store) (acc : nat) (es : list bexp) : result (store * nat) :=
         match es with
         | [] => Ok (s, acc)
         | e1 :: r => rbind (bbuild O s e1) (fun '(s1, b) =>
                      rbind (and2 s1 acc b) (fun '(s2, c) => go s2 c r))
         end) s 1 es
  | BOrL es =>
      (fix go (s : store) (acc : nat) (es : list bexp) : result (store * nat) :=
         match es with
         | [] => Ok (s, acc)
         | e1 :: r => rbind (bbuild O s e1) (fun '(s1, b) =>
                      rbind (or2 s1 acc b) (fun '(s2, c) => go s2 c r))
         end) s 0 es
  | BBad => SyntaxErr
  end.

(* OBDD(expr, ordering): ListOrdering raises RuntimeError on a repeated variable *)
Definition obdd_parse (s : store) (e : bexp) (O : ordering) : result (store * obdd) :=
  if negb (nodup_vars O) then RuntimeErr
  else rmap (fun '(s', n) => (s', (n, O))) (bbuild O s e).
(* OBDD('lambda v1,...,vn: e') *)
Definition obdd_lambda (s : store) (args : list var) (e : bexp) : result (store * obdd) :=
  obdd_parse s e args.

(* ---- printing ---- *)
Inductive tok := TVar (v : var) | TNot | TAnd | TOr | TLp | TRp | TOne | TZero.

(* BDDNonTerminalNode.__str__ (after F6) as a token list; terminals print '1' / '0' *)
Fixpoint print_node (fuel : nat) (s : store) (n : nat) : list tok :=
  match fuel with
  | 0 => []
  | S f =>
      if is_terminal n then [if val_of n then TOne else TZero]
      else
        let v := nvar s n in
        let part (neg : bool) (c : nat) : option (list tok) :=
            let lit := if neg then [TNot; TVar v] else [TVar v] in
            if is_terminal c then (if val_of c then Some lit else None)
            else
              let cs := print_node f s c in
              let both (x : nat) := negb (is_terminal x) || val_of x in
              let cs := if both (nlow s c) && both (nhigh s c) then [TLp] ++ cs ++ [TRp] else cs in
              Some (lit ++ [TAnd] ++ cs) in
        match part true (nlow s n), part false (nhigh s n) with
        | Some a, Some b => [TLp] ++ a ++ [TRp; TOr; TLp] ++ b ++ [TRp]
        | Some a, None => a
        | None, Some b => b
        | None, None => []
        end
  end.
Definition print_root (s : store) (n : nat) : list tok := print_node (nfuel n) s n.

(* Python's expression grammar restricted to the printed tokens:
     or_expr  := and_expr ('|' and_expr)*        (left associative)
     and_expr := not_expr ('&' not_expr)*        (left associative)
     not_expr := '~' not_expr | atom
     atom     := VAR | '1' | '0' | '(' or_expr ')'                                  *)
Fixpoint pyparse_or (fuel : nat) (ts : list tok) : option (bexp * list tok) :=
  match fuel with
  | 0 => None
  | S f =>
      let fix or_tail (k : nat) (acc : bexp) (ts : list tok) : option (bexp * list tok) :=
          match k with
          | 0 => None
          | S k' =>
              match ts with
              | TOr :: r => match pyparse_and f r with
                            | Some (e, r') => or_tail k' (BOr acc e) r'
                            | None => None
                            end
              | _ => Some (acc, ts)
              end
          end in
      match pyparse_and f ts with
      | Some (e, r) => or_tail (S (List.length r)) e r
      | None => None
      end
  end
with pyparse_and (fuel : nat) (ts : list tok) : option (bexp * list tok) :=
  match fuel with
  | 0 => None
  | S f =>
      let fix and_tail (k : nat) (acc : bexp) (ts : list tok) : option (bexp * list tok) :=
          match k with
          | 0 => None
          | S k' =>
              match ts with
              | TAnd :: r => match pyparse_not f r with
                             | Some (e, r') => and_tail k' (BAnd acc e) r'
                             | None => None
                             end
              | _ => Some (acc, ts)
              end
          end in
      match pyparse_not f ts with
      | Some (e, r) => and_tail (S (List.length r)) e r
      | None => None
      end
  end
with pyparse_not (fuel : nat) (ts : list tok) : option (bexp * list tok) :=
  match fuel with
  | 0 => None
  | S f =>
      match ts with
      | TNot :: r => match pyparse_not f r with
                     | Some (e, r') => Some (BNot e, r')
                     | None => None
                     end
      | TVar v :: r => Some (BVar v, r)
      | TOne :: r => Some (BConst true, r)
      | TZero :: r => Some (BConst false, r)
      | TLp :: r => match pyparse_or f r with
                    | Some (e, TRp :: r') => Some (e, r')
                    | _ => None
                    end
      | _ => None
      end
  end.
Definition pyparse (ts : list tok) : option bexp :=
  match pyparse_or (3 * List.length ts + 3) ts with
  | Some (e, []) => Some e
  | _ => None
  end.

(* OBDD(str(o.root), o.ordering) *)
Definition reparse_root (s : store) (o : obdd) : result (store * obdd) :=
  match pyparse (print_root s (fst o)) with
  | Some e => obdd_parse s e (snd o)
  | None => SyntaxErr
  end.
