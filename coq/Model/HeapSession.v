(* HeapSession.v — sessions in which the CALLER also writes.

   Model/Heap.v runs sequences of API calls.  A real caller does more between two calls: it
   holds the very label sets of its structure (`K.labels(s)` returns the set object,
   `K.labelling_function()` the dict) and may add or remove atoms.  A session is a sequence of
   library calls and caller writes to label cells; [spec_session] is what the caller is
   entitled to expect — every call answers for the labelling as the CALLER has made it so far,
   and leaves no trace of its own.

   Executable definitions only; theorems in Proofs/HeapSessionP.v. *)
From PMC Require Export Model.Heap.

Inductive step :=
| SCall (c : call)                       (* CTL/LTL/CTLS.modelcheck(K, f[, F]) *)
| SWrite (l : loc) (c : list atom).      (* the caller rewrites the contents of a label set it holds *)

(* what happens: calls thread the heap (they clone, label the clone, ...) *)
Fixpoint run_session (h : heap) (ss : list step) : heap * list (result (list nat)) :=
  match ss with
  | [] => (h, [])
  | SCall c :: r =>
      let '(h1, x) := run_call h c in
      let '(h2, xs) := run_session h1 r in
      (h2, x :: xs)
  | SWrite l c :: r => run_session (hset h l c) r
  end.

(* the heap as the caller alone has made it *)
Fixpoint caller_heap (h : heap) (ss : list step) : heap :=
  match ss with
  | [] => h
  | SCall _ :: r => caller_heap h r
  | SWrite l c :: r => caller_heap (hset h l c) r
  end.

(* what the caller expects: the pure answer on the value its structure has at that moment *)
Fixpoint spec_session (h : heap) (ss : list step) : list (result (list nat)) :=
  match ss with
  | [] => []
  | SCall c :: r => pure_call h c :: spec_session h r
  | SWrite l c :: r => spec_session (hset h l c) r
  end.

(* the cell of state [s] in object [k] (labels(s)), if any *)
Fixpoint cell_of (m : list (nat * loc)) (s : nat) : option loc :=
  match m with
  | [] => None
  | (x, l) :: r => if Nat.eqb x s then Some l else cell_of r s
  end.

(* K.labels(s).add(a) / .discard(a) as writes *)
Definition add_step (h : heap) (k : hk) (s : nat) (a : atom) : list step :=
  match cell_of (hlab k) s with
  | Some l => [SWrite l (if mema a (hget h l) then hget h l else hget h l ++ [a])]
  | None => []
  end.
