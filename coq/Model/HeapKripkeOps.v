(* HeapKripkeOps.v — the structure-building operations of kripke.py on the heap model of
   Model/Heap.v (label sets are cells): the constructor, clone() and get_substructure(V) all
   end in `Kripke(S, S0, R, L)`, which stores `set(L[state])` - a NEW set - for every state.
   Executable definitions only; theorems in Proofs/HeapKripkeOpsP.v. *)
From PMC Require Export Model.Heap.

(* run a pure structure-building function and give every state of the result a fresh cell *)
Definition build_h (h : heap) (r : result kripke) : heap * result hk :=
  hbind (h, r) (fun h K =>
    let '(h', m) := alloc_cells h (klab K) in
    (h', Ok (mkHK (kg K) (kinit K) m))).

Definition mk_kripke_h (h : heap) (S S0 : list nat) (R : list (nat * nat)) (L : list (nat * list atom))
  : heap * result hk := build_h h (mk_kripke S S0 R L).
Definition substructure_h (h : heap) (k : hk) (V : list nat) : heap * result hk :=
  build_h h (substructure (abs h k) V).

(* WRONG: `K.replace_labelling_function(dict(self._labels))` - a new dict over the SAME sets *)
Definition clone_sharing_labels_h (h : heap) (k : hk) : heap * result hk := (h, Ok k).

(* the caller writes into a label set it holds (labels(s).add / discard) *)
Definition write_label_h (h : heap) (l : loc) (c : list atom) : heap := hset h l c.
