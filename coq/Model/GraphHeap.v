(* GraphHeap.v — a small HEAP model of the mutable successor sets of pyModelChecking/graph.py.

   In the Python code `DiGraph._next[v]` is a mutable `set`; `add_edge` calls `.add` on it.
   `clone()`, `get_reversed_graph()` and `get_subgraph()` return NEW DiGraph objects which
   the caller may edit.  The pure model (Model/Graph.v) returns new values, so "the clone is
   independent of G" and "editing a returned graph affects neither G nor later calls" are
   trivially true of it.  Here successor sets live in heap cells, a DiGraph OBJECT only
   points to them, and `add_edge` WRITES a cell: sharing of successor sets between G and a
   result (a shallow clone) or between two results (a memoised reversal) is expressible
   (and goes wrong, see Proofs/GraphHeapP.v).

   Same shape as Model/Heap.v (label sets of Kripke structures), cell contents are
   successor lists.  Executable definitions only. *)
From PMC Require Export Model.Graph.
From PMC Require Export Model.HeapSession.     (* [loc], [cell_of] *)

(* ------------------------------------------------------------------ *)
(* heaps of successor sets                                             *)
(* ------------------------------------------------------------------ *)
(* association list, newest binding first; a write conses a new binding *)
Definition gheap := list (loc * list nat).

Fixpoint gget (h : gheap) (l : loc) : list nat :=
  match h with
  | [] => []
  | (x, c) :: r => if Nat.eqb x l then c else gget r l
  end.
Definition gset (h : gheap) (l : loc) (c : list nat) : gheap := (l, c) :: h.
Definition gallocatedb (h : gheap) (l : loc) : bool := memb l (map fst h).
(* a location greater than every allocated one *)
Definition gfresh (h : gheap) : loc := S (fold_right Nat.max 0 (map fst h)).
Definition galloc (h : gheap) (c : list nat) : gheap * loc :=
  let l := gfresh h in ((l, c) :: h, l).

(* ------------------------------------------------------------------ *)
(* DiGraph objects                                                     *)
(* ------------------------------------------------------------------ *)
(* `self._next`: every node points to the cell that holds its successor set; the dict
   itself (keys, insertion order) is a value *)
Definition gobj := list (nat * loc).

Definition glocs (o : gobj) : list loc := map snd o.

(* the abstract value of an object in a heap *)
Definition gabs (h : gheap) (o : gobj) : graph := map (fun '(v, l) => (v, gget h l)) o.

(* the constructor DiGraph(V, E) builds new sets: one FRESH cell per row of the value *)
Fixpoint galloc_graph (h : gheap) (gr : graph) : gheap * gobj :=
  match gr with
  | [] => (h, [])
  | (v, ds) :: r =>
      let '(h1, l) := galloc h ds in
      let '(h2, o) := galloc_graph h1 r in
      (h2, (v, l) :: o)
  end.

(* ------------------------------------------------------------------ *)
(* the library operations as heap programs: read the abstract value,    *)
(* compute with the pure function, build the result with the constructor *)
(* ------------------------------------------------------------------ *)
Definition clone_gh (h : gheap) (g : gobj) : gheap * gobj :=                    (* clone *)
  galloc_graph h (clone (gabs h g)).
Definition reversed_gh (h : gheap) (g : gobj) : gheap * gobj :=       (* get_reversed_graph *)
  galloc_graph h (reversed (gabs h g)).
Definition subgraph_gh (h : gheap) (g : gobj) (X : list nat) : gheap * gobj := (* get_subgraph *)
  galloc_graph h (subgraph (gabs h g) X).
(* get_reachable_set_from: the returned Python set is a new object that no DiGraph points
   to — a value; no heap effect *)
Definition reach_gh (h : gheap) (g : gobj) (X : list nat) : result (list nat) :=
  reach_r (gabs h g) X.

(* the in-place mutation `self._next[s].add(d)` of add_edge, for a node s of the object
   (node insertion changes the dict, which is a value in this model) *)
Definition add_edge_gh (h : gheap) (g : gobj) (s d : nat) : gheap :=
  match cell_of g s with
  | Some l => let c := gget h l in gset h l (if memb d c then c else c ++ [d])
  | None => h
  end.

(* arbitrary in-place writes (`.add`, `.discard`, `.clear`, ... on successor sets) *)
Definition gwrites (h : gheap) (ws : list (loc * list nat)) : gheap :=
  fold_left (fun h w => gset h (fst w) (snd w)) ws h.

(* ------------------------------------------------------------------ *)
(* WRONG variants                                                      *)
(* ------------------------------------------------------------------ *)
(* `nDG._next = dict(self._next)`: a new dict that shares every successor set *)
Definition clone_shallow_gh (h : gheap) (g : gobj) : gheap * gobj := (h, g).

(* a memoising get_reversed_graph: the object carries a cache slot; the first call computes
   the reversed graph and remembers the OBJECT, later calls hand out that same object
   (the same cells) again *)
Definition gcache := option gobj.
Definition rev_cached_gh (hc : gheap * gcache) (g : gobj) : (gheap * gcache) * gobj :=
  let '(h, cache) := hc in
  match cache with
  | Some o => ((h, Some o), o)
  | None => let '(h', o) := reversed_gh h g in ((h', Some o), o)
  end.

(* ------------------------------------------------------------------ *)
(* sessions: library calls on one object G, the caller edits the results *)
(* ------------------------------------------------------------------ *)
Inductive gstep :=
| GClone                                 (* G.clone() *)
| GRev                                   (* G.get_reversed_graph() *)
| GSub (X : list nat)                    (* G.get_subgraph(X) *)
| GReach (X : list nat)                  (* G.get_reachable_set_from(X) *)
| GWriteResult (i : nat) (s d : nat).    (* add_edge(s, d) on the i-th result of this session *)

(* what the caller sees of a result at the moment it is returned *)
Inductive gobs :=
| OGraph (gr : graph)
| OSet (r : result (list nat)).

(* the caller's write: ignored if there is no i-th result or it was a set *)
Definition write_result_gh (h : gheap) (res : list (option gobj)) (i s d : nat) : gheap :=
  match nth_error res i with
  | Some (Some o) => add_edge_gh h o s d
  | _ => h
  end.

(* [res]: the objects returned so far ([None] for a GReach) *)
Fixpoint run_gsession_from (h : gheap) (g : gobj) (res : list (option gobj)) (ss : list gstep)
  : gheap * list gobs :=
  match ss with
  | [] => (h, [])
  | GClone :: r =>
      let '(h1, o) := clone_gh h g in
      let '(h2, xs) := run_gsession_from h1 g (res ++ [Some o]) r in
      (h2, OGraph (gabs h1 o) :: xs)
  | GRev :: r =>
      let '(h1, o) := reversed_gh h g in
      let '(h2, xs) := run_gsession_from h1 g (res ++ [Some o]) r in
      (h2, OGraph (gabs h1 o) :: xs)
  | GSub X :: r =>
      let '(h1, o) := subgraph_gh h g X in
      let '(h2, xs) := run_gsession_from h1 g (res ++ [Some o]) r in
      (h2, OGraph (gabs h1 o) :: xs)
  | GReach X :: r =>
      let '(h2, xs) := run_gsession_from h g (res ++ [None]) r in
      (h2, OSet (reach_gh h g X) :: xs)
  | GWriteResult i s d :: r =>
      run_gsession_from (write_result_gh h res i s d) g res r
  end.
Definition run_gsession (h : gheap) (g : gobj) (ss : list gstep) : gheap * list gobs :=
  run_gsession_from h g [] ss.

(* what the caller is entitled to expect: the pure functions on the value G had at the
   start — its own edits of results contribute nothing *)
Fixpoint spec_gsession (gr : graph) (ss : list gstep) : list gobs :=
  match ss with
  | [] => []
  | GClone :: r => OGraph (clone gr) :: spec_gsession gr r
  | GRev :: r => OGraph (reversed gr) :: spec_gsession gr r
  | GSub X :: r => OGraph (subgraph gr X) :: spec_gsession gr r
  | GReach X :: r => OSet (reach_r gr X) :: spec_gsession gr r
  | GWriteResult _ _ _ :: r => spec_gsession gr r
  end.

(* the same session against the memoising reversal (clone / subgraph / reach as above) *)
Fixpoint run_gsession_cached_from (hc : gheap * gcache) (g : gobj) (res : list (option gobj))
    (ss : list gstep) : gheap * list gobs :=
  match ss with
  | [] => (fst hc, [])
  | GClone :: r =>
      let '(h1, o) := clone_gh (fst hc) g in
      let '(h2, xs) := run_gsession_cached_from (h1, snd hc) g (res ++ [Some o]) r in
      (h2, OGraph (gabs h1 o) :: xs)
  | GRev :: r =>
      let '((h1, c1), o) := rev_cached_gh hc g in
      let '(h2, xs) := run_gsession_cached_from (h1, c1) g (res ++ [Some o]) r in
      (h2, OGraph (gabs h1 o) :: xs)
  | GSub X :: r =>
      let '(h1, o) := subgraph_gh (fst hc) g X in
      let '(h2, xs) := run_gsession_cached_from (h1, snd hc) g (res ++ [Some o]) r in
      (h2, OGraph (gabs h1 o) :: xs)
  | GReach X :: r =>
      let '(h2, xs) := run_gsession_cached_from hc g (res ++ [None]) r in
      (h2, OSet (reach_gh (fst hc) g X) :: xs)
  | GWriteResult i s d :: r =>
      run_gsession_cached_from (write_result_gh (fst hc) res i s d, snd hc) g res r
  end.
Definition run_gsession_cached (h : gheap) (g : gobj) (ss : list gstep) : gheap * list gobs :=
  run_gsession_cached_from (h, None) g [] ss.
