(* BddCache.v — the memo dictionaries of pyModelChecking/BDD/BDD.py made explicit.

   Model/Bdd.v models `apply`, `cache_restrict` (= cofactor) and `__invert__`
   (= neg) WITHOUT the result caches (`r_cache`) that the Python code threads
   through these recursions.  Here the caches are threaded exactly as in the code:

   * BDD.apply(operator, A, B, ordering, r_cache) looks up r_cache[A][B] FIRST
     (before any case analysis, so terminal/terminal pairs are cached too);
     on a hit the cached node is returned and nothing else happens; on a miss
     `compute` runs (its recursive calls go through `apply` again, sharing the
     same dictionary) and the result is stored under (A, B) afterwards.
     The key does NOT contain the operator: OBDD.apply creates one fresh
     dict() per top-level call, so a cache never sees two operators.
   * cache_restrict(bdd, var, value, r_cache) is keyed by the node only
     (var/value are fixed during one top-level BDDNode.restrict call, which
     starts from dict()).
   * __invert__(self, r_cache=None) is keyed by the node; the top-level call
     starts from dict().

   A dictionary is an association list; a key is only ever inserted after a
   failed lookup, so the list never holds two entries for one key.
   Executable definitions only; Proofs/BddCacheP.v shows that the cached
   functions return exactly the store and node of the uncached ones. *)
From PMC Require Export Model.Bdd.

(* ---- r_cache[A][B] ---- *)
Definition cache2 := list ((nat * nat) * nat).
Fixpoint find2 (c : cache2) (a b : nat) : option nat :=
  match c with
  | [] => None
  | ((a', b'), n) :: r => if Nat.eqb a' a && Nat.eqb b' b then Some n else find2 r a b
  end.

(* BDD.apply / compute with the cache *)
Fixpoint apply_c (fuel : nat) (O : ordering) (op : bool -> bool -> bool)
         (s : store) (c : cache2) (a b : nat) : result (store * cache2 * nat) :=
  match fuel with
  | 0 => OutOfFuel
  | S f =>
      match find2 c a b with
      | Some n => Ok (s, c, n)                                  (* return r_cache[A][B] *)
      | None =>
          (* low = apply(..); high = apply(..); BDDNonTerminalNode(x, low, high) *)
          let sons_c (x : var) (a1 b1 a2 b2 : nat) :=
              rbind (apply_c f O op s c a1 b1) (fun '(s1, c1, l) =>
              rbind (apply_c f O op s1 c1 a2 b2) (fun '(s2, c2, h) =>
              let '(s3, n) := mknode s2 x l h in Ok (s3, c2, n))) in
          let compute (_ : unit) :=
              if is_terminal a then
                if is_terminal b then Ok (s, c, term_of (op (val_of a) (val_of b)))
                else sons_c (nvar s b) a (nlow s b) a (nhigh s b)            (* BDD_and_BDDsons *)
              else if is_terminal b || in_order O (nvar s a) (nvar s b)
                   then sons_c (nvar s a) (nlow s a) b (nhigh s a) b         (* BDDsons_and_BDD *)
              else if Nat.eqb (nvar s a) (nvar s b)
                   then sons_c (nvar s a) (nlow s a) (nlow s b) (nhigh s a) (nhigh s b)
              else if in_order O (nvar s b) (nvar s a)
                   then sons_c (nvar s b) a (nlow s b) a (nhigh s b)
              else RuntimeErr in
          (* r_cache[A][B] = compute(...) *)
          rbind (compute tt) (fun '(s', c', n) => Ok (s', ((a, b), n) :: c', n))
      end
  end.

(* OBDD.apply: result_cache = dict() *)
Definition apply_top (fuel : nat) (O : ordering) (op : bool -> bool -> bool)
           (s : store) (a b : nat) : result (store * nat) :=
  rmap (fun '(s', _, n) => (s', n)) (apply_c fuel O op s [] a b).

(* ---- r_cache[bdd] ---- *)
Definition cache1 := list (nat * nat).
Fixpoint find1 (c : cache1) (a : nat) : option nat :=
  match c with
  | [] => None
  | (a', n) :: r => if Nat.eqb a' a then Some n else find1 r a
  end.

(* cache_restrict / compute_restrict *)
Fixpoint cofactor_c (fuel : nat) (s : store) (c : cache1) (n : nat) (v : var) (b : bool)
  : result (store * cache1 * nat) :=
  match fuel with
  | 0 => OutOfFuel
  | S f =>
      match find1 c n with
      | Some r => Ok (s, c, r)
      | None =>
          let compute (_ : unit) :=
              if is_terminal n then Ok (s, c, n)
              else if Nat.eqb (nvar s n) v
                   then cofactor_c f s c (if b then nhigh s n else nlow s n) v b
              else rbind (cofactor_c f s c (nlow s n) v b) (fun '(s1, c1, l) =>
                   rbind (cofactor_c f s1 c1 (nhigh s n) v b) (fun '(s2, c2, h) =>
                   let '(s3, r) := mknode s2 (nvar s n) l h in Ok (s3, c2, r))) in
          rbind (compute tt) (fun '(s', c', r) => Ok (s', (n, r) :: c', r))
      end
  end.

(* BDDNode.restrict: cache_restrict(self, var, value, dict()) *)
Definition cofactor_top (fuel : nat) (s : store) (n : nat) (v : var) (b : bool)
  : result (store * nat) :=
  rmap (fun '(s', _, r) => (s', r)) (cofactor_c fuel s [] n v b).

(* __invert__(self, r_cache) *)
Fixpoint neg_c (fuel : nat) (s : store) (c : cache1) (n : nat) : result (store * cache1 * nat) :=
  match fuel with
  | 0 => OutOfFuel
  | S f =>
      match find1 c n with
      | Some r => Ok (s, c, r)
      | None =>
          let compute (_ : unit) :=
              if is_terminal n then Ok (s, c, term_of (negb (val_of n)))
              else rbind (neg_c f s c (nlow s n)) (fun '(s1, c1, l) =>
                   rbind (neg_c f s1 c1 (nhigh s n)) (fun '(s2, c2, h) =>
                   let '(s3, r) := mknode s2 (nvar s n) l h in Ok (s3, c2, r))) in
          rbind (compute tt) (fun '(s', c', r) => Ok (s', (n, r) :: c', r))
      end
  end.

(* __invert__(self): r_cache = dict() *)
Definition neg_top (fuel : nat) (s : store) (n : nat) : result (store * nat) :=
  rmap (fun '(s', _, r) => (s', r)) (neg_c fuel s [] n).
