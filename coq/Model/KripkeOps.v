(* KripkeOps.v — a Kripke structure that is edited after construction: Kripke.add_node /
   Kripke.add_edge (fix 8bf41ed: a state added after construction gets the EMPTY label set,
   as in the constructor), with the documented RuntimeError for a node / edge that is already
   there; the caller catches it and goes on.  [kapply_nolabel] is the behaviour before the
   fix (the methods inherited from DiGraph, which know nothing about the labelling).
   Executable definitions only; theorems in Proofs/KripkeOpsP.v. *)
From PMC Require Export Model.Kripke Model.GraphOps.

(* `if state not in self._labels: self._labels[state] = set()` *)
Definition fill_label (L : list (nat * list atom)) (s : nat) : list (nat * list atom) :=
  if memb s (map fst L) then L else L ++ [(s, [])].

Definition kapply (K : kripke) (o : gop) : result kripke :=
  match apply_gop (kg K) o with
  | Ok g' =>
      Ok (mkK g' (kinit K)
              match o with
              | OpNode v => fill_label (klab K) v
              | OpEdge s d => fill_label (fill_label (klab K) s) d
              end)
  | TypeErr => TypeErr | RuntimeErr => RuntimeErr | SyntaxErr => SyntaxErr
  | ValueErr => ValueErr | ParseErr => ParseErr | OutOfFuel => OutOfFuel
  end.

(* before the fix: the graph changes, the labelling does not *)
Definition kapply_nolabel (K : kripke) (o : gop) : result kripke :=
  match apply_gop (kg K) o with
  | Ok g' => Ok (mkK g' (kinit K) (klab K))
  | TypeErr => TypeErr | RuntimeErr => RuntimeErr | SyntaxErr => SyntaxErr
  | ValueErr => ValueErr | ParseErr => ParseErr | OutOfFuel => OutOfFuel
  end.

(* a caller that catches the RuntimeError and goes on *)
Fixpoint run_kops (K : kripke) (ops : list gop) : kripke :=
  match ops with
  | [] => K
  | o :: r => match kapply K o with Ok K' => run_kops K' r | _ => run_kops K r end
  end.
Fixpoint run_kops_nolabel (K : kripke) (ops : list gop) : kripke :=
  match ops with
  | [] => K
  | o :: r => match kapply_nolabel K o with Ok K' => run_kops_nolabel K' r | _ => run_kops_nolabel K r end
  end.

(* `self._labels[state]` of the code: KeyError (rendered RuntimeErr here: an internal error)
   when the state has no entry - the observation that the totalised [labels_of] hides *)
Definition label_entry (K : kripke) (s : nat) : result (list atom) :=
  if memb s (map fst (klab K)) then Ok (labels_of K s) else RuntimeErr.
