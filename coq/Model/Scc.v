(* Scc.v — model of pyModelChecking/graph.py compute_SCCs (non-recursive
   Nuutila / Soisalon-Soininen).  The explicit DFS stack of the Python loop is
   written as the recursion it simulates; the bookkeeping state and all the
   arithmetic on disc / lowlink are the same:
     disc, lowlink : dict node -> int      (disc, low : nat -> option nat)
     in_a_scc      : set                   (inscc)
     scc_stack     : list, top = last      (sstk, head = top)
     time          : int                   (time)
     yielded components, in yield order    (out)
   Executable definitions only. *)
From PMC Require Export Model.Graph.

Definition nmap := nat -> option nat.
Definition upd (m : nmap) (k v : nat) : nmap := fun x => if Nat.eqb x k then Some v else m x.
Definition get (m : nmap) (k : nat) : nat := match m k with Some v => v | None => 0 end.
Definition has (m : nmap) (k : nat) : bool := match m k with Some _ => true | None => false end.

Record st := mkst { disc : nmap; low : nmap; inscc : list nat; sstk : list nat;
                    time : nat; out : list (list nat) }.
Definition st0 := mkst (fun _ => None) (fun _ => None) [] [] 0 [].

(* disc[w] = time; lowlink[w] = time  (the caller has already chosen [t]) *)
Definition discover (w t : nat) (s : st) : st :=
  mkst (upd (disc s) w t) (upd (low s) w t) (inscc s) (sstk s) t (out s).

(* while scc_stack and disc[scc_stack[-1]] > disc[v]: k = pop(); scc.append(k) *)
Fixpoint pop_while (d : nmap) (dv : nat) (stk : list nat) (acc : list nat) : list nat * list nat :=
  match stk with
  | k :: stk' => if Nat.ltb dv (get d k) then pop_while d dv stk' (acc ++ [k]) else (acc, stk)
  | [] => (acc, [])
  end.

(* the `except StopIteration` block: post-order lowlink update, then root test *)
Definition low_step (s : st) (dv : nat) (lv w : nat) : nat :=
  if memb w (inscc s) then lv
  else if Nat.ltb dv (get (disc s) w) then Nat.min lv (get (low s) w)
       else Nat.min lv (get (disc s) w).
Definition finish (g : graph) (v : nat) (s : st) : st :=
  let dv := get (disc s) v in
  let lv := fold_left (low_step s dv) (succs g v) (get (low s) v) in
  if Nat.eqb lv dv then
    let '(popped, stk') := pop_while (disc s) dv (sstk s) [] in
    mkst (disc s) (upd (low s) v lv) (popped ++ v :: inscc s) stk' (time s) (out s ++ [v :: popped])
  else mkst (disc s) (upd (low s) v lv) (inscc s) (v :: sstk s) (time s) (out s).

(* one stack frame [v, iter(G.next(v))]: scan the successors, descending into the
   undiscovered ones, then run the StopIteration block *)
Fixpoint visit (fuel : nat) (g : graph) (v : nat) (s : st) : st :=
  match fuel with
  | 0 => s
  | S fuel' =>
      let s1 := fold_left (fun s w => if has (disc s) w then s
                                      else visit fuel' g w (discover w (S (time s)) s))
                          (succs g v) s in
      finish g v s1
  end.

(* `for s in G.nodes(): if s not in disc: disc[s] = time ...` — note that a new
   root re-uses the current value of [time] without incrementing it *)
Definition scc_root (g : graph) (s : st) (r : nat) : st :=
  if has (disc s) r then s else visit (S (List.length g)) g r (discover r (time s) s).
Definition scc_run (g : graph) : st := fold_left (scc_root g) (nodes g) st0.
Definition compute_SCCs (g : graph) : list (list nat) := out (scc_run g).
