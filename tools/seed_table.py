#!/usr/bin/env python3
"""seed_table.py - regenerates the table of section 11 of DESIGN.md from seeded/*/meta.json (between the markers)"""
import json, glob, re
rows = []
for d in sorted(glob.glob('/verif/seeded/*/meta.json')):
    m = json.load(open(d))
    c = m['checks_run_against_patched_repo']
    missed = [k for k, v in c.items() if not (v['exit'] == 1 and v['violation_lines_with_failing_input'] > 0)]
    rows.append('| %s | %s | %s | %s | %s |' % (m['seed'], m['property_broken'], m['summary'].replace('|', '\\|'), m['needs_to_manifest'].replace('|', '\\|'),
                                               ', '.join(m['caught_by']) + (' (also run, silent: %s)' % ', '.join(missed) if missed else '')))
table = '| seed | breaks | the change | needs | caught by (quick tier) |\n|---|---|---|---|---|\n' + '\n'.join(rows)
p = '/verif/DESIGN.md'
s = open(p).read()
s = re.sub(r'<!-- SEEDS-BEGIN -->.*?<!-- SEEDS-END -->', lambda m: '<!-- SEEDS-BEGIN -->\n' + table + '\n<!-- SEEDS-END -->', s, flags=re.S)
open(p, 'w').write(s)
print(len(rows), 'seeds')
