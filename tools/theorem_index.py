#!/usr/bin/env python3
"""theorem_index.py - compiles every Properties/Cxx.v and prints 'Cxx theorem axioms' lines (markdown table)"""
import re, subprocess, glob, os, sys
COQ = '/verif/coq'
rows = []
for pf in sorted(glob.glob(COQ + '/Properties/C*.v')):
    pid = os.path.basename(pf)[:-2]
    src = re.sub(r'\(\*.*?\*\)', '', open(pf).read(), flags=re.S)
    thms = re.findall(r'^\s*Theorem\s+(\w+)', src, flags=re.M)
    pa = re.findall(r'Print Assumptions\s+(\w+)', src)
    out = subprocess.run(['timeout', '600', 'coqc', '-Q', '.', 'PMC', 'Properties/%s.v' % pid], cwd=COQ, capture_output=True, text=True)
    if out.returncode != 0:
        print(pid, 'DOES NOT COMPILE', out.stderr[-300:]); continue
    blocks = [b for b in re.split(r'(?m)^(?=Closed under the global context|Axioms:)', out.stdout) if b.startswith('Closed') or b.startswith('Axioms')]
    ax = {}
    for n, b in zip(pa, blocks):
        ax[n] = 'none' if b.startswith('Closed') else ', '.join(re.findall(r'^(\S+)\s*:', b[len('Axioms:'):], flags=re.M))
    for t in thms:
        rows.append((pid, t, ax.get(t, '(no Print Assumptions)')))
if '--md' in sys.argv:
    print('| property | theorem | axioms |\n|---|---|---|')
    for r in rows:
        print('| %s | `%s` | %s |' % r)
else:
    for r in rows:
        print(*r)
print('total theorems:', len(rows), file=sys.stderr)
