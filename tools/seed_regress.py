#!/usr/bin/env python3
"""seed_regress.py [name-prefix ...] - regression of the recorded seeded changes against the CURRENT checks: for every
seeded/<name>/ applies patch.diff to /repo, runs the quick tier of the check of the property the seed was written against (and, if
that check was never among the catching ones, the first check that caught it), undoes the patch, and records whether a VIOLATION with
a failing input is still reported.  Sequential; nothing else may use /repo or run checks in /verif meanwhile.
Writes seeded/REGRESSION.json."""
import sys, json, glob, subprocess, os, time
sel = sys.argv[1:]
out = {}
for m in sorted(glob.glob('/verif/seeded/*/meta.json')):
    d = os.path.dirname(m)
    name = os.path.basename(d)
    if sel and not any(name.startswith(p) for p in sel):
        continue
    meta = json.load(open(m))
    pid = meta['property_broken']
    checks = [pid] if pid in meta['caught_by'] else meta['caught_by'][:1]
    if subprocess.run(['git', '-C', '/repo', 'status', '--short', '--untracked-files=no'], capture_output=True, text=True).stdout.strip():
        print('/repo dirty - abort'); sys.exit(2)
    # (a recorded patch whose context was moved by a later fix: commit in /repo is applied with fuzz by patch(1); never --3way, which stages)
    if subprocess.run(['git', '-C', '/repo', 'apply', d + '/patch.diff'], capture_output=True).returncode != 0 and \
            subprocess.run(['patch', '-d', '/repo', '-p1', '-s', '-F3', '--no-backup-if-mismatch', '-i', d + '/patch.diff'], capture_output=True).returncode != 0:
        subprocess.run(['git', '-C', '/repo', 'checkout', '--', '.'])
        out[name] = {'error': 'patch does not apply'}; print(name, 'PATCH DOES NOT APPLY', flush=True); continue
    res = {}
    try:
        for c in checks:
            t0 = time.time()
            r = subprocess.run(['/verif/check', c, '--tier', 'quick'], capture_output=True, text=True, timeout=1500)
            lines = [l for l in r.stdout.splitlines() if l.startswith('VIOLATION')]
            res[c] = {'exit': r.returncode, 'violation_lines': len(lines), 'with_failing_input': sum(1 for l in lines if 'no-failing-input-found' not in l),
                      'wall_s': round(time.time() - t0, 1)}
    finally:
        subprocess.run(['git', '-C', '/repo', 'checkout', '--', '.'])
        subprocess.run(['git', '-C', '/verif', 'checkout', '-q', '--', 'evidence'])
    ok = all(v['exit'] == 1 and v['with_failing_input'] > 0 for v in res.values())
    out[name] = {'property': pid, 'checks': res, 'still_caught': ok}
    print(name, 'ok' if ok else 'NOT CAUGHT', res, flush=True)
    json.dump(out, open('/verif/seeded/REGRESSION.json', 'w'), indent=1, sort_keys=True)
print('still caught: %d of %d' % (sum(1 for v in out.values() if v.get('still_caught')), len(out)))
