#!/bin/bash
# prescreen.sh <worktree> <check> [<check>...] - UNOFFICIAL quick look: runs checks against a private mutated copy through PMC_REPO
# (the recorded evaluation is tools/seed_eval.sh, which applies the patch to /repo). Evidence files are restored afterwards.
cd /verif
WT="$1"; shift
for c in "$@"; do
  out=$(PMC_REPO="$WT" PYTHONPATH="$WT" PYTHONHASHSEED=0 PYTHONDONTWRITEBYTECODE=1 VERIF_TIER=quick VERIF_SEED=20260926 timeout 1200 /venv/bin/python harness/run.py "$c" 2>&1)
  rc=$?
  echo "== $c rc=$rc violations=$(echo "$out" | grep -c '^VIOLATION') nfi=$(echo "$out" | grep -c 'no-failing-input-found')"
  echo "$out" | grep -E '^(VIOLATION|CHECK-ERROR|KNOWN)' | head -4
done
git checkout -q -- evidence
