#!/bin/bash
# run_all.sh [quick|thorough] - runs every claimed check sequentially on the current /repo tree,
# refreshing /verif/evidence/*.json; prints one line per check; exit 1 if any check is not green.
cd "$(dirname "$0")/.."
TIER="${1:-quick}"
if ! git -C /repo diff --quiet; then echo "WARNING: /repo working tree is dirty"; fi
rc_all=0
for pid in $(python3 -c "import json;print(' '.join(c['property_id'] for c in json.load(open('MANIFEST.json'))['checks']))"); do
  start=$(date +%s)
  ./check $pid --tier $TIER > /tmp/run_all_$$_$pid.log 2>&1; rc=$?
  end=$(date +%s)
  echo "$pid rc=$rc $((end-start))s :: $(grep -v 'WARNING conda' /tmp/run_all_$$_$pid.log | grep -c '^VIOLATION') violation lines, $(grep -c '^KNOWN-FINDING' /tmp/run_all_$$_$pid.log) known-finding lines :: $(grep -v 'WARNING conda' /tmp/run_all_$$_$pid.log | tail -1)"
  [ $rc -ne 0 ] && rc_all=1
  rm -f /tmp/run_all_$$_$pid.log
done
exit $rc_all
