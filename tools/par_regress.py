#!/usr/bin/env python3
"""par_regress.py seeds|audit [--lanes N] [name-prefix / ID ...] - the regression of tools/seed_regress.py / tools/audit_regress.py run in
PARALLEL lanes: every lane owns a private clone of /repo's HEAD under /tmp (removed at the end), applies one recorded patch to it and runs
the quick tier of the check against that clone through PMC_REPO (the mechanism of tools/prescreen.sh; /repo itself is not touched, so this
may run while nothing else is going on in /verif - the checks still rebuild from /verif's working tree and overwrite evidence/, which is
restored from git at the end).  Results are MERGED into seeded/REGRESSION.json resp. audit/RESULTS.json with "via": "private clone"."""
import sys, json, glob, subprocess, os, time, shutil
from concurrent.futures import ThreadPoolExecutor
import queue
args = sys.argv[1:]
kind = args.pop(0)
lanes = 4
if '--lanes' in args:
    i = args.index('--lanes'); lanes = int(args[i + 1]); del args[i:i + 2]
sel = args
jobs = []
if kind == 'seeds':
    for m in sorted(glob.glob('/verif/seeded/*/meta.json')):
        d = os.path.dirname(m); name = os.path.basename(d)
        if sel and not any(name.startswith(p) for p in sel):
            continue
        meta = json.load(open(m)); pid = meta['property_broken']
        checks = [pid] if pid in meta['caught_by'] else meta['caught_by'][:1]
        jobs.append((name, d + '/patch.diff', checks, pid))
    outp = '/verif/seeded/REGRESSION.json'
else:
    for d in sorted(glob.glob('/verif/audit/C*')):
        pid = os.path.basename(d)
        if sel and pid not in sel:
            continue
        for p in sorted(glob.glob(d + '/*.diff')):
            jobs.append((pid + '/' + os.path.basename(p), p, [pid], pid))
    outp = '/verif/audit/RESULTS.json'
out = json.load(open(outp)) if os.path.exists(outp) else {}
lane_q = queue.Queue()
for k in range(lanes):
    d = '/tmp/par_regress_%d_%d' % (os.getpid(), k)
    subprocess.run(['git', 'clone', '-q', '/repo', d], check=True)
    lane_q.put(d)
env0 = dict(os.environ, PYTHONHASHSEED='0', PYTHONDONTWRITEBYTECODE='1', VERIF_TIER='quick', VERIF_SEED='20260926')


def apply(lib, patch):
    for cmd in (['git', '-C', lib, 'apply', patch], ['git', '-C', lib, 'apply', '--3way', patch],
                ['patch', '-d', lib, '-p1', '-s', '-F3', '-i', patch]):
        subprocess.run(['git', '-C', lib, 'reset', '-q', '--hard'])       # (index too: --3way stages what it applies)
        subprocess.run(['git', '-C', lib, 'clean', '-fdq'])
        if subprocess.run(cmd, capture_output=True).returncode == 0:
            return ' '.join(cmd[3:-1]) if cmd[0] == 'git' else 'patch -F3'
    return None


def one(job):
    name, patch, checks, pid = job
    lib = lane_q.get()
    try:
        how = apply(lib, patch)
        if how is None:
            return name, {'error': 'patch does not apply'}
        res = {}
        for c in checks:
            t0 = time.time()
            env = dict(env0, PMC_REPO=lib, PYTHONPATH=lib)
            try:
                r = subprocess.run(['/venv/bin/python', 'harness/run.py', c], cwd='/verif', env=env, capture_output=True, text=True, timeout=2400)
                lines = [l for l in r.stdout.splitlines() if l.startswith('VIOLATION')]
                res[c] = {'exit': r.returncode, 'violation_lines': len(lines), 'with_failing_input': sum(1 for l in lines if 'no-failing-input-found' not in l),
                          'wall_s': round(time.time() - t0, 1)}
            except subprocess.TimeoutExpired:
                res[c] = {'exit': -1, 'violation_lines': 0, 'with_failing_input': 0, 'wall_s': 2400, 'timeout': True}
        return name, {'checks': res, 'applied_with': how}
    finally:
        subprocess.run(['git', '-C', lib, 'reset', '-q', '--hard'])
        subprocess.run(['git', '-C', lib, 'clean', '-fdq'])
        lane_q.put(lib)


with ThreadPoolExecutor(lanes) as ex:
    for (name, rec), job in zip(ex.map(one, jobs), jobs):
        pid = job[3]
        if 'error' in rec:
            out[name] = rec; print(name, 'PATCH DOES NOT APPLY', flush=True); continue
        ok = all(v['exit'] == 1 and v['with_failing_input'] > 0 for v in rec['checks'].values())
        if kind == 'seeds':
            out[name] = {'property': pid, 'checks': rec['checks'], 'still_caught': ok, 'via': 'private clone of /repo HEAD through PMC_REPO (tools/par_regress.py)'}
        else:
            v = dict(list(rec['checks'].values())[0]); v['caught'] = ok; v['via'] = 'private clone of /repo HEAD through PMC_REPO (tools/par_regress.py)'
            out[name] = v
        print(name, 'ok' if ok else 'NOT CAUGHT', rec['checks'], rec['applied_with'], flush=True)
        json.dump(out, open(outp, 'w'), indent=1, sort_keys=True)
while not lane_q.empty():
    shutil.rmtree(lane_q.get(), ignore_errors=True)
subprocess.run(['git', '-C', '/verif', 'checkout', '-q', '--', 'evidence'])
key = 'still_caught' if kind == 'seeds' else 'caught'
print('%s: %d of %d' % (key, sum(1 for v in out.values() if v.get(key)), len(out)))
