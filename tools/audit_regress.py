#!/usr/bin/env python3
"""audit_regress.py [ID ...] - applies every white-box audit escape (audit/<ID>/escape_<n>.diff, extra_*.diff, cand_*.diff) to /repo,
runs the quick tier of check <ID>, undoes the patch, and records in audit/RESULTS.json whether the (extended) check now reports it
with a failing input.  Sequential; nothing else may use /repo or run checks in /verif meanwhile."""
import sys, json, glob, subprocess, os, time
sel = sys.argv[1:]
out = {}
if os.path.exists('/verif/audit/RESULTS.json'):
    out = json.load(open('/verif/audit/RESULTS.json'))
for d in sorted(glob.glob('/verif/audit/C*')):
    pid = os.path.basename(d)
    if sel and pid not in sel:
        continue
    for p in sorted(glob.glob(d + '/*.diff')):
        key = pid + '/' + os.path.basename(p)
        if subprocess.run(['git', '-C', '/repo', 'status', '--short', '--untracked-files=no'], capture_output=True, text=True).stdout.strip():
            print('/repo dirty - abort'); sys.exit(2)
        if subprocess.run(['git', '-C', '/repo', 'apply', p], capture_output=True).returncode != 0 and \
                subprocess.run(['patch', '-d', '/repo', '-p1', '-s', '-F3', '--no-backup-if-mismatch', '-i', p], capture_output=True).returncode != 0:
            subprocess.run(['git', '-C', '/repo', 'checkout', '--', '.'])
            out[key] = {'error': 'patch does not apply'}; print(key, 'PATCH DOES NOT APPLY', flush=True); continue
        try:
            t0 = time.time()
            r = subprocess.run(['/verif/check', pid, '--tier', 'quick'], capture_output=True, text=True, timeout=1800)
            lines = [l for l in r.stdout.splitlines() if l.startswith('VIOLATION')]
            res = {'exit': r.returncode, 'violation_lines': len(lines), 'with_failing_input': sum(1 for l in lines if 'no-failing-input-found' not in l),
                   'wall_s': round(time.time() - t0, 1)}
        finally:
            subprocess.run(['git', '-C', '/repo', 'checkout', '--', '.'])
            subprocess.run(['git', '-C', '/verif', 'checkout', '-q', '--', 'evidence'])
        res['caught'] = res['exit'] == 1 and res['with_failing_input'] > 0
        out[key] = res
        print(key, 'caught' if res['caught'] else 'NOT CAUGHT', res, flush=True)
        json.dump(out, open('/verif/audit/RESULTS.json', 'w'), indent=1, sort_keys=True)
print('caught: %d of %d' % (sum(1 for v in out.values() if v.get('caught')), len(out)))
