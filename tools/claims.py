# claims.py - which properties are claimed, at which level (read by gen_manifest.py)
claim('C01', 'proof', 'Coq theorem (induction on fuel; EU by worklist-reachability lemma, EG by SCC + generalised Buechi lemma) + extracted-model differential test',
      'C01_exact: for every well-formed total Kripke structure and every CTL state formula the Gallina model of CTL.modelcheck returns exactly '
      '{s | K,s |= f} under the infinite-path semantics of logics.rst (unbounded: all structures, all formulas). The model is tied to the Python code '
      'by running both on the same presentations (exhaustive <=2 states x depth-1/2 formulas, random to 6 states / depth 4).',
      'Known finding KF-print-a (memo keyed by printed form; atoms named like printed subformulas) is outside the theorem: the model compares formulas structurally.')
claim('C05', 'proof', 'Coq theorems (one lemma per rewrite rule, pathwise equivalences, structural induction) + syntactic differential test of the rewriters',
      'C05_LNot_sem/_head, C05_restrict_alphabet/_sem, C05_restrict_ltl, C05_restrict_ctl: the modelled rewriters preserve sat on every structure and path and land in the '
      'documented restricted alphabets; tie = tree equality of get_equivalent_restricted_formula()/LNot output with the model on every generated formula.')
claim('C12', 'proof', 'Coq theorem (16-clause DFS invariant, induction on fuel and successor lists, axiom-free) + differential test incl. yield order',
      'C12_exact: for every well-formed digraph the model of compute_SCCs yields a partition of the nodes into mutual-reachability classes. '
      'Tie: partition equality with the Python generator on all digraphs <=3 nodes, 1/7 (quick) or all (thorough) of the 65536 4-node digraphs under 3 insertion orders, random to 12 nodes.')
claim('C13', 'proof', 'Coq theorems (worklist invariant for reachability, fold invariants for construction/reversal/subgraph; axiom-free) + differential test',
      'C13_reach/_reversed/_reversed_twice/_subgraph/_clone/_mk_graph for all well-formed graphs and node sets; tie: same graph enumeration as C12 x node subsets, before/after snapshots of the Python object.',
      'Aliasing of the Python sets is monitored at run time (ids), not modelled.')
claim('C02', 'proof', 'Coq theorem (tableau soundness via the generalised Buechi lemma, completeness by a choice-free pigeonhole over atom indices) + extracted-model differential test',
      'C02_exact: for every well-formed total Kripke structure and every LTL formula A g the Gallina model of LTL.modelcheck (closure, X-choice atoms, tableau, self-fulfilling SCCs, '
      'backward reachability; after fix F1) returns exactly the states all of whose infinite paths satisfy g. Tie: LTL.modelcheck vs the extracted model on every <=2-state structure x path formulas '
      'with <=3 operators (sampled) and random <=5 states; each exclusion additionally certified by a concrete lasso evaluated by an independent path evaluator.',
      'Known finding KF-print-a (membership by printed form) is outside the theorem: the model compares formulas structurally.')
claim('C03', 'proof', 'Coq theorem (labelling invariant + substitution lemma + fresh-name hygiene using printer injectivity; built on C01 and C02) + extracted-model differential test',
      'C03_exact: for every constructed Kripke structure and every CTL* state formula over identifier atoms the Gallina model of CTLS.modelcheck (innermost-first elimination of quantified '
      'subformulas through fresh atoms on a labelled clone; CTL first, LTL tableau, E g ~> not A not g) returns exactly {s | K,s |= f}. C03_fresh_collision_refuted records why exotic atom names are excluded. '
      'Tie: CTLS.modelcheck vs the extracted model, exhaustive small scope (sampled) + random, tagged by the back end that answered.',
      'Known findings KF-print-a / KF-C03-a (atoms spelled like printed subformulas / fresh names) are outside the theorem and reported as KNOWN-FINDING.')
claim('C08', 'proof', 'Coq theorems (nested induction on operator trees; finite case analysis over language x operator x class) + exhaustive differential test of construct / cast_to / guards',
      'C08_construct/_built_objects_are_members/_members_can_be_built/_cast/_guard_*: in the model of the class lattice (isinstance tables transcribed from the class statements, wrap_subformulas after fixes F8 and F10) '
      'an object can be built or cast into a logic exactly when its tree is a formula of that logic, otherwise TypeError; the modelcheck guards reject everything but state formulas. '
      'Tie: all 5986 operator trees of depth <= 2 (+ternary, sampled depth 3) x 4 language modules x {construct, mixed-language apply, cast_to x4, 3 modelcheck guards on objects and text}.')
claim('C11', 'proof', 'Coq theorems (printer injectivity by unique decomposition of printed strings) + differential test of ==, hash, set/dict behaviour, str and clone',
      'C11_eq_iff_tree/_refl/_sym/_trans/_hash/_hash_inj/_bool/_print_injective (+ C11_reserved_refuted): printed-form equality is tree equality on formulas of one logic over non-reserved identifier atoms. '
      'Tie: == both ways, !=, hash, len({f,g}), dict lookup, str character by character vs the model printer, clone tree/sharing/mutation-through-clone on pairs and triples from the depth<=2 enumeration.',
      'Node sharing after clone() is a heap fact monitored at run time (id walk + mutation through the clone), not modelled.')
claim('C14', 'proof', 'Coq theorems (constructor / clone / substructure specifications over the proved graph-construction lemmas; axiom-free) + differential test incl. aliasing monitors',
      'C14_ctor/_shape/_nonstate/_state/_clone/_substructure/_constructed_wf: Kripke(S,S0,R,L) succeeds exactly when every state has a successor (else RuntimeError); states, transitions, initial states, label sets as documented; '
      'clone and get_substructure (after fix F2) preserve labels and give exactly the induced transitions, RuntimeError exactly when the induced relation is not total. '
      'Tie: every argument combination over <= 2 states, all 3-state (S,R) with sampled S0/L, random <= 5 states, every subset V; container-type and state-type variation.',
      'Label-set aliasing (id disjointness, mutation through every handed-out object) is monitored at run time, not modelled.')
for p, why in [
    ('C04', 'check being assembled'),
    ('C06', 'check being assembled'), ('C07', 'check being assembled'), ('C09', 'check being assembled'),
    ('C10', 'check being assembled'), ('C15', 'check being assembled'),
    ('C16', 'check being assembled'), ('C17', 'check being assembled'), ('C18', 'check being assembled'), ('C19', 'check being assembled')]:
    na(p, 'not claimed yet: ' + why + '; see DESIGN.md section 6 for the planned theorem and correspondence')
