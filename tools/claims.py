# claims.py - which properties are claimed, at which level (read by gen_manifest.py)
claim('C01', 'proof', 'Coq theorem (induction on fuel; EU by worklist-reachability lemma, EG by SCC + generalised Buechi lemma) + extracted-model differential test',
      'C01_exact: for every well-formed total Kripke structure and every CTL state formula the Gallina model of CTL.modelcheck returns exactly '
      '{s | K,s |= f} under the infinite-path semantics of logics.rst (unbounded: all structures, all formulas). The model is tied to the Python code '
      'by running both on the same presentations (exhaustive <=2 states x depth-1/2 formulas, random to 6 states / depth 4).',
      'Known finding KF-print-a (memo keyed by printed form; atoms named like printed subformulas) is outside the theorem: the model compares formulas structurally.')
claim('C05', 'proof', 'Coq theorems (one lemma per rewrite rule, pathwise equivalences, structural induction) + syntactic differential test of the rewriters',
      'C05_LNot_sem/_head, C05_restrict_alphabet/_sem, C05_restrict_ltl, C05_restrict_ctl: the modelled rewriters preserve sat on every structure and path and land in the '
      'documented restricted alphabets; tie = tree equality of get_equivalent_restricted_formula()/LNot output with the model on every generated formula.')
claim('C12', 'proof', 'Coq theorem (16-clause DFS invariant, induction on fuel and successor lists, axiom-free) + differential test incl. yield order',
      'C12_exact: for every well-formed digraph the model of compute_SCCs yields a partition of the nodes into mutual-reachability classes. '
      'Tie: partition equality with the Python generator on all digraphs <=3 nodes, 1/7 (quick) or all (thorough) of the 65536 4-node digraphs under 3 insertion orders, random to 12 nodes.')
claim('C13', 'proof', 'Coq theorems (worklist invariant for reachability, fold invariants for construction/reversal/subgraph; independence on a heap model of successor sets; axiom-free) + differential test',
      'C13_reach/_reversed/_reversed_twice/_subgraph/_clone/_mk_graph for all well-formed graphs and node sets; independence on Model/GraphHeap.v (successor sets are heap cells): C13_clone_independent, _results_independent, '
      '_session (any sequence of clone/reverse/subgraph/reach calls interleaved with the caller editing the graphs it got back: every call returns the pure value on the initial G, G unchanged), _shallow_clone_refuted, _cached_reverse_refuted; '
      'graphs edited after construction: C13_mutator_call, _mutator_histories (any sequence of add_node/add_edge calls, failing ones included: exactly the old nodes/edges plus what the calls named), _incremental_construction (= the constructor). '
      'Tie: same graph enumeration as C12 x node subsets incl. foreign nodes; constructor vs mk_graph on the arguments in five iterable forms; node-object families; add_node/add_edge histories; argument forms of get_reachable_set_from; '
      'results edited through the public API and the call repeated; before/after snapshots and ids of the Python sets.',
      'The heap model of DiGraph is a transcription (constructor = fresh cells), tied to the pure model by theorem; aliasing of the Python sets is additionally monitored at run time.')
claim('C02', 'proof', 'Coq theorem (tableau soundness via the generalised Buechi lemma, completeness by a choice-free pigeonhole over atom indices) + extracted-model differential test',
      'C02_exact: for every well-formed total Kripke structure and every LTL formula A g the Gallina model of LTL.modelcheck (closure, X-choice atoms, tableau, self-fulfilling SCCs, '
      'backward reachability; after fix F1) returns exactly the states all of whose infinite paths satisfy g. Tie: LTL.modelcheck vs the extracted model on every <=2-state structure x path formulas '
      'with <=3 operators (sampled) and random <=5 states; each exclusion additionally certified by a concrete lasso evaluated by an independent path evaluator.',
      'Known finding KF-print-a (membership by printed form) is outside the theorem: the model compares formulas structurally.')
claim('C03', 'proof', 'Coq theorem (labelling invariant + substitution lemma + fresh-name hygiene using printer injectivity; built on C01 and C02) + extracted-model differential test',
      'C03_exact: for every constructed Kripke structure and every CTL* state formula over identifier atoms the Gallina model of CTLS.modelcheck (innermost-first elimination of quantified '
      'subformulas through fresh atoms on a labelled clone; CTL first, LTL tableau, E g ~> not A not g) returns exactly {s | K,s |= f}. C03_fresh_collision_refuted records why exotic atom names are excluded. '
      'Tie: CTLS.modelcheck vs the extracted model, exhaustive small scope (sampled) + random, tagged by the back end that answered.',
      'Known findings KF-print-a / KF-C03-a (atoms spelled like printed subformulas / fresh names) are outside the theorem and reported as KNOWN-FINDING.')
claim('C08', 'proof', 'Coq theorems (nested induction on operator trees; finite case analysis over language x operator x class) + exhaustive differential test of construct / cast_to / guards',
      'C08_construct/_built_objects_are_members/_members_can_be_built/_cast/_guard_*: in the model of the class lattice (isinstance tables transcribed from the class statements, wrap_subformulas after fixes F8 and F10) '
      'an object can be built or cast into a logic exactly when its tree is a formula of that logic, otherwise TypeError; the modelcheck guards reject everything but state formulas. '
      'Tie: all 5986 operator trees of depth <= 2 (+ternary, sampled depth 3) x 4 language modules x {construct, mixed-language apply, cast_to x4, 3 modelcheck guards on objects and text}.')
claim('C11', 'proof', 'Coq theorems (printer injectivity by unique decomposition of printed strings; clone independence and hash coherence on a heap model of formula nodes) + differential test of ==, hash, set/dict behaviour, str and clone',
      'C11_eq_iff_tree/_refl/_sym/_trans/_hash/_hash_inj/_bool/_print_injective (+ C11_reserved_refuted): printed-form equality is tree equality on formulas of one logic over non-reserved identifier atoms. '
      'On Model/FormHeap.v (formula nodes are heap cells): C11_clone_fresh (equal tree, every node a new cell), C11_clone_independent (in-place edits on either side never reach the other), '
      'C11_edited_formula_hash (== implies equal hash in every heap, whatever was hashed or edited before), C11_shallow_clone_refuted, C11_cached_hash_refuted. '
      'Tie: == both ways, !=, hash, len({f,g}), dict lookup, str character by character vs the model printer, clone tree/sharing/mutation-through-clone (objects built from formula objects and from raw str/bool operands), '
      'formulas edited after hashing, on pairs and triples from the depth<=2 enumeration.',
      'The heap model of formula objects is a transcription (constructors = fresh cells), tied to the tree model by theorem; node sharing of the Python objects is additionally monitored at run time (id walk + mutation through the clone).')
claim('C14', 'proof', 'Coq theorems (constructor / clone / substructure specifications over the proved graph-construction lemmas; no shared label set on a heap model; axiom-free) + differential test incl. aliasing monitors',
      'C14_ctor/_shape/_nonstate/_state/_clone/_substructure/_constructed_wf: Kripke(S,S0,R,L) succeeds exactly when every state has a successor (else RuntimeError); states, transitions, initial states, label sets as documented; '
      'clone and get_substructure (after fix F2) preserve labels and give exactly the induced transitions, RuntimeError exactly when the induced relation is not total. '
      'On the heap model (label sets are cells; Model/HeapKripkeOps.v): C14_ctor_fresh_label_sets, C14_clone_no_shared_label_set, C14_substructure_no_shared_label_set (fresh cells; a write on either side never reaches the other), '
      'C14_substructure_raises_cleanly, C14_sharing_clone_refuted. '
      'Structures edited after construction (Model/KripkeOps.v, fix 8bf41ed): C14_added_states_are_labelled (any history of add_node / add_edge keeps one label entry per state, old labels, initial states; the graph is the one of C13_mutator_histories), '
      'C14_grown_structure_is_wellformed (a grown structure that is total again is wf_K: the model-checking theorems apply), C14_unlabelled_growth_refuted (the inherited DiGraph methods lose the entry: self._labels[2] raises). '
      'Tie for these: a stream that grows random structures step by step and compares structure, labels(s) of every state and the three checkers with the extracted kapply / label_entry / models after every step. '
      'Tie: every argument combination over <= 2 states, all 3-state (S,R) with sampled S0/L, random <= 5 states, every subset V; container-type and state-type variation (incl. one-shot iterators, identity-hashed state objects).',
      'The heap model is a transcription (constructor = one new cell per state), tied to the pure model by theorem; label-set aliasing of the Python objects (id disjointness, mutation through every handed-out object) is additionally monitored at run time.')
claim('C04', 'proof', 'Coq corollaries of the exactness theorems C01-C03 (22 laws) + implementation-side evaluation of every law with per-answer comparison to the model',
      'C04_three_checkers_agree, _ctls_ctl_agree, _ctls_ltl_agree, _ctl_ltl_agree; not/and/or/implies = complement/intersection/union for CTL and CTL-star; A g = not E not g; '
      'AX/EX, AF/EG, AG/EF dualities; the six fixpoint expansion laws. Tie: 138 named laws evaluated on the implementation (both sides through the real modelcheck, as objects, cast objects, printed text, hand-written text) '
      'on all <=2-state structures + random, and every single answer compared with the model.',
      'The text-vs-object clause rests on C09 (parser round trip).')
claim('C06', 'proof', 'Coq theorems (the answer is a function of state set / edge relation / labelling relation; commutes with injective renamings; unaffected by unreachable states) + monitored execution under hash seeds',
      'C06_presentation_*, _rename_states_*, _rename_atoms_*, _unreachable for CTL, LTL and CTL-star, _scc_presentation, _reach_presentation. PARTIAL by nature: PYTHONHASHSEED and set iteration order are runtime facts; '
      'the check runs each sampled (K,f) under permuted argument orders, renamings to ints/strings/tuples, atom renamings, unreachable extensions, and in fresh interpreters under 3 (quick) / 16 (thorough) hash seeds, '
      'comparing all variants with each other and with the model run on every presentation read back from the live objects.',
      'Hash-seed independence is established by monitored execution on sampled inputs, not by proof.')
claim('C09', 'proof', 'Coq theorems (lexing of printed strings; the deterministic parser model inverts the printer; printer injectivity) + differential test of printer and parser models against str() and Lark',
      'C09_roundtrip (PL, CTL-star, LTL), C09_roundtrip_ctl (CTL in CTL-star notation through both parsers), C09_injective, C09_injective_std, C09_ctl_compact_refuted. '
      'The parser model (Lark LALR + contextual lexer: contextual keyword resolution, operator-position prefix matching) agreed with the real parsers on ~800k strings before any theorem was stated. '
      'Tie: tree_of(Parser()(str(f))) = tree_of(f), str(f) = model print, model parse of the printed string, injectivity by grouping; all operator-tree shapes of depth <= 2 with rotated leaves incl. risky atom names, random depth 5.',
      'Lark\'s LALR(1) table construction and contextual lexer are trusted to behave as on the tested strings.')
claim('C10', 'proof', 'Coq theorems (parser totality, membership of every accepted formula in the logic, soundness w.r.t. the documented grammars transcribed as CFGs with free tokenisation) + monitored exception contract',
      'C10_total, C10_member, C10_sound (accepted => derivable in the documented grammar with the same AST; character level), C10_grammar_member, C10_strict, C10_accepts_printed, C10_examples. '
      'PARTIAL: the exception class and .pos are produced by Lark and are monitored on the implementation (class by identity, 0 <= pos <= len), not modelled. '
      'Tie: accept/reject and tree of model vs real parsers on all <=3-word sequences + sampled (quick) / all (thorough) 4-word sequences, mutations, cross-feeding, glued forms, garbage.')
claim('C15', 'other', 'partial Coq proof + machine-checked refutation witnesses + three-way differential classification (implementation / faithful model / fair reference semantics)',
      'The property is REFUTED for the code and for the faithful model (known findings KF-C15-a, KF-C15-b; theorems C15_*_refuted). Proved: C15_fair_states_sound, C15_fair_states_ref_exact (what a repair must compute), '
      'C15_fair_label_fresh/_marks, C15_no_error_ctl/ltl/ctls (every F), C15_guards, C15_unfair_ctl_total. The check compares implementation, faithful model and CGP reference semantics: '
      'a wrong answer that equals the faithful model is a KNOWN-FINDING, any other wrong answer, any internal error, any change of K, any F=None deviation is a VIOLATION.',
      'Level "other": proof where the property holds, refutation where it does not; exactness w.r.t. fair semantics cannot be claimed.')
claim('C16', 'proof', 'Coq theorems (store invariant preserved by every operation incl. arbitrary garbage collection; canonicity; induction over operation histories) + history-level differential test with real gc',
      'C16_invariant_all_histories (for all n, ops: wf_h (hrun n ops); HGc spares an arbitrary extra set = every collector timing), _no_duplicate_triples, _canonical, _eq, _meaning_stable, _collect, _same_function_same_node. '
      'Tie: random histories (parse/lambda/and/or/xor/not/restrict/reparse/drop/gc) on the real classes in fresh interpreters with gc.collect() at gc steps vs the model: status, truth tables, == and is matrices, variables, live count, duplicate-triple scan after every step.',
      'CPython\'s collector itself is not modelled; the theorem covers every timing, the test exercises CPython\'s.')
claim('C17', 'proof', 'Coq theorems (Shannon-expansion apply/negation/cofactor correct, reduced and ordered for any Boolean operator; support; memoised = unmemoised) + differential test with truth tables',
      'C17_apply (any bool->bool->bool), _obdd_apply, _neg, _restrict, _support, _ordering_mismatch, _incomparable, _respects_ordering, _apply_cache/_neg_cache/_restrict_cache (the code\'s memo dictionaries return exactly the same store and node), _cache_reuse_refuted. '
      'Tie: all pairs of a 47-expression basis x orderings x {&,|,^}, ~, restrict(v,b): truth tables vs independent evaluation and vs model, node walk (ordered, reduced), variables(), RuntimeError guards.')
claim('C18', 'proof', 'Coq theorems (expression building denotes the expression; canonicity across notations; printer/parser round trip to the identical root) + differential test of both notations and printing',
      'C18_lambda, _build, _synonyms, _same_function_same_node, _missing_variable, _bad_syntax, _never_ok_when_ill_formed, _print_parse, _roundtrip (OBDD(str(o.root), o.ordering) is the identical root), _old_printer_refuted. '
      'Tie: expression / lambda / keyword forms / str(root) / str(o) round trips compared pairwise and with the model, printed token list vs model, malformed stream incl. the statement-shaped corpus (fix F11).',
      'Python\'s ast module is trusted to produce the AST shapes of bexp.')
claim('C07', 'proof', 'Coq theorems on a heap model (mutable label cells; frame + refinement to the pure model by lock-step induction; induction over call histories) + history-level differential test with deep snapshots',
      'C07_call (frame and refinement), _caller_unchanged, _others_unchanged, _depends_on_arguments_only, _history (any sequence of the six entry points over any pool: every result is the pure model on the initial heap and all structures are unchanged), _session (calls interleaved with the CALLER writing to the label sets it holds: every call answers for the labelling the caller has made so far and leaves no trace), '
      '_fair_container_session / _answers_depend_on_contents (Model/FairCells.v: the fairness argument as an OBJECT with an address - temporaries rebuilt at the address of a dead one, one container edited in place: every call answers for the contents at that moment), _address_cache_harmless_without_reuse / _address_cache_refuted (a per-address memo of the constraints is right exactly until an address is reused), '
      'and non-vacuity: _noclone_refuted, _shallow_clone_refuted, _noclone_history_refuted. The heap model is tied to the pure models by theorem; the pure models to the code by the check: random histories of modelcheck calls '
      '(3 logics x object / cast object / text x F in {None, [], [...]}) over a pool of structures and formulas, snapshots of every structure (contents and identity of every label/successor set) and formula object after every step, '
      'every result compared with the model for that call in isolation; caller-side relabel steps (labels(s).add/discard, labelling_function(), replace_labelling_function), explicit parser= arguments and identity-hashed state objects; history dependence is shrunk to a minimal prelude.',
      'The heap model (Model/Heap.v) is a transcription of the clone-then-label discipline, not generated from the source.')
claim('C19', 'proof', 'Coq theorems (totality / duplicate-freeness / subset for all six entry points; independence of later calls on the heap model) + monitored execution on heterogeneous Python values',
      'C19_ctl, _ltl, _ctls, _ctl_fair, _ltl_fair, _ctls_fair (Ok, NoDup, subset of the states, for every F), _later_calls_unaffected. PARTIAL by nature: state/label value types, the set type and identity of the returned object are runtime facts: '
      'the check queries structures with str / tuple / negative / frozenset / mixed-type states, labels that are non-strings or look like operators, fresh names or fair labels, absent atoms, deep formulas; the result must be a fresh set of states, '
      'and after the caller mutates it a repeated call must equal the model.',
      'Exactness is asserted on identifier atoms only (known findings KF-print-a, KF-C03-a); exotic atom names get the weaker contract.')
for p, why in []:
    na(p, why)
