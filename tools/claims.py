# claims.py - which properties are claimed, at which level (read by gen_manifest.py)
claim('C01', 'proof', 'Coq theorem (induction on fuel; EU by worklist-reachability lemma, EG by SCC + generalised Buechi lemma) + extracted-model differential test',
      'C01_exact: for every well-formed total Kripke structure and every CTL state formula the Gallina model of CTL.modelcheck returns exactly '
      '{s | K,s |= f} under the infinite-path semantics of logics.rst (unbounded: all structures, all formulas). The model is tied to the Python code '
      'by running both on the same presentations (exhaustive <=2 states x depth-1/2 formulas, random to 6 states / depth 4).',
      'Known finding KF-print-a (memo keyed by printed form; atoms named like printed subformulas) is outside the theorem: the model compares formulas structurally.')
claim('C05', 'proof', 'Coq theorems (one lemma per rewrite rule, pathwise equivalences, structural induction) + syntactic differential test of the rewriters',
      'C05_LNot_sem/_head, C05_restrict_alphabet/_sem, C05_restrict_ltl, C05_restrict_ctl: the modelled rewriters preserve sat on every structure and path and land in the '
      'documented restricted alphabets; tie = tree equality of get_equivalent_restricted_formula()/LNot output with the model on every generated formula.')
claim('C12', 'proof', 'Coq theorem (16-clause DFS invariant, induction on fuel and successor lists, axiom-free) + differential test incl. yield order',
      'C12_exact: for every well-formed digraph the model of compute_SCCs yields a partition of the nodes into mutual-reachability classes. '
      'Tie: partition equality with the Python generator on all digraphs <=3 nodes, 1/7 (quick) or all (thorough) of the 65536 4-node digraphs under 3 insertion orders, random to 12 nodes.')
claim('C13', 'proof', 'Coq theorems (worklist invariant for reachability, fold invariants for construction/reversal/subgraph; axiom-free) + differential test',
      'C13_reach/_reversed/_reversed_twice/_subgraph/_clone/_mk_graph for all well-formed graphs and node sets; tie: same graph enumeration as C12 x node subsets, before/after snapshots of the Python object.',
      'Aliasing of the Python sets is monitored at run time (ids), not modelled.')
for p, why in [
    ('C02', 'check being assembled (LTL tableau proof in progress)'), ('C03', 'check being assembled'), ('C04', 'check being assembled'),
    ('C06', 'check being assembled'), ('C07', 'check being assembled'), ('C08', 'check being assembled'), ('C09', 'check being assembled'),
    ('C10', 'check being assembled'), ('C11', 'check being assembled'), ('C14', 'check being assembled'), ('C15', 'check being assembled'),
    ('C16', 'check being assembled'), ('C17', 'check being assembled'), ('C18', 'check being assembled'), ('C19', 'check being assembled')]:
    na(p, 'not claimed yet: ' + why + '; see DESIGN.md section 6 for the planned theorem and correspondence')
