#!/usr/bin/env python3
"""seed_meta.py <seed-name> <property> <needs> <summary> - writes seeded/<name>/meta.json from run.txt"""
import sys, json, os, re
name, pid, needs, summary = sys.argv[1:5]
d = '/verif/seeded/' + name
lines = [l.strip() for l in open(d + '/run.txt') if ': ' in l]
run = dict(l.split(': ', 1) for l in lines if not l.startswith('note: '))
notes = []
for l in lines:
    if l.startswith('note: ') and l[6:] not in notes:
        notes.append(l[6:])
checks = {}
for tok in run.get('checks', '').split():
    c, rc, fi = tok.split(':')
    checks[c] = {'exit': int(rc.split('=')[1]), 'violation_lines_with_failing_input': int(fi.split('=')[1])}
meta = {'seed': name, 'property_broken': pid, 'summary': summary, 'needs_to_manifest': needs,
        'origin': 'independent sub-agent given only the property text and a scratch worktree of /repo',
        'confirmed_in_scratch_worktree': {'existing_tests_with_change': run.get('tests_with_change'),
                                          'demo_exit_with_change': int(run.get('demo_exit_with_change', -1)),
                                          'demo_exit_without_change': int(run.get('demo_exit_without_change', -1))},
        'what_i_ran': 'tools/seed_eval.sh: git -C /repo apply patch.diff; ./check <id> --tier quick; git -C /repo checkout -- .',
        'checks_run_against_patched_repo': checks,
        'caught_by': [c for c, v in checks.items() if v['exit'] == 1 and v['violation_lines_with_failing_input'] > 0]}
if notes:
    meta['history'] = notes
json.dump(meta, open(d + '/meta.json', 'w'), indent=1)
print(json.dumps(meta['caught_by']), name)
