#!/bin/bash
# mk_audit.sh <ID> - private workspace for a white-box audit of one check: /root/work/aud_<ID>/{verif,lib}
ID="$1"; W=/root/work/aud_$ID
rm -rf "$W"; mkdir -p "$W"
rsync -a --exclude seeded --exclude replays --exclude '.git' /verif/ "$W/verif/"
mkdir -p "$W/verif/replays"
git clone -q /repo "$W/lib"
echo "$W"
