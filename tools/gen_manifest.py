#!/usr/bin/env python3
"""gen_manifest.py - writes /verif/MANIFEST.json from the table below (single source of truth)
and validates it against /root/.vp/MANIFEST.schema.json when jsonschema is available."""
import json, os, sys
VERIF = os.path.dirname(os.path.dirname(os.path.abspath(__file__)))

TB = ('Trusted: Coq 8.16.1 kernel (coqc; coqchk -o in the thorough tier), vm_compute in Examples/refutations; axioms as printed by '
      'Print Assumptions (only Classical_Prop.classic where listed); extraction (ExtrOcamlBasic + ExtrOcamlString, nat unary, no Extract '
      'Constant of ours) + OCaml 4.13 + coq/Extract/driver.ml; the hand-written Gallina model is tied to /repo by differential testing on '
      'every run (harness/*.py, /venv/bin/python, PYTHONPATH=/repo), not by proof; Python runtime (dict/set order, hashing, gc), Lark and '
      'ast are modelled/monitored, not verified.')

# pid -> (claimed?, category, technique, text, note)
CHECKS = {}
NA = {}

def claim(pid, cat, technique, text, note=''):
    CHECKS[pid] = dict(cat=cat, technique=technique, text=text, note=(note + ' ' + TB).strip())

def na(pid, reason):
    NA[pid] = reason

exec(open(os.path.join(VERIF, 'tools', 'claims.py')).read())

props = [json.loads(l)['id'] for l in open(os.path.join(VERIF, 'properties.jsonl'))]
checks = []
for pid in props:
    if pid in CHECKS:
        c = CHECKS[pid]
        checks.append({
            'property_id': pid,
            'quick_cmd': './check %s --tier quick' % pid,
            'thorough_cmd': './check %s --tier thorough' % pid,
            'evidence_file': '/verif/evidence/%s.json' % pid,
            'replay_cmd_template': './check %s --replay {path}' % pid,
            'engine': 'coq-proof+correspondence',
            'level_claimed': {'category': c['cat'], 'text': c['text'], 'design_ref': 'DESIGN.md section 6, ' + pid},
            'level_note': c['note'],
            'technique': c['technique'],
        })
m = {
    'version': 1,
    'setup_cmd': './setup.sh --clean',
    'hooks': {'guard': 'PYMODELCHECKING_VERIF', 'enable': 'none needed: no hooks are compiled into /repo; every observation is taken from outside (PYTHONPATH=/repo)',
              'baseline_off_cmd': 'cd /repo && /venv/bin/python -m pytest -ra -q -p no:cacheprovider --timeout=900 --continue-on-collection-errors',
              'source_commits': [], 'add_only': True},
    'engines': [{'name': 'coq-proof+correspondence', 'path': '/verif/check',
                 'serves_properties': [c['property_id'] for c in checks],
                 'kind_free_text': 'Coq 8.16 theorems about hand-written Gallina models (coq/), proof gate re-compiling Properties/<id>.v and reading Print Assumptions, '
                                   'plus differential correspondence of the extracted OCaml model against /repo (harness/)'}],
    'checks': checks,
    'notes': 'See DESIGN.md. Known findings (genuine defects recorded, not repaired) are in known_findings.json; fix: commits in /repo are listed there as fixed entries.',
    'not_applicable': [{'property_id': p, 'reason': NA[p]} for p in props if p in NA],
}
missing = [p for p in props if p not in CHECKS and p not in NA]
if missing:
    print('neither claimed nor not_applicable:', missing); sys.exit(1)
json.dump(m, open(os.path.join(VERIF, 'MANIFEST.json'), 'w'), indent=1)
try:
    import jsonschema
    jsonschema.validate(m, json.load(open('/root/.vp/MANIFEST.schema.json')))
    print('MANIFEST.json valid: %d checks, %d not_applicable' % (len(checks), len(m['not_applicable'])))
except ImportError:
    print('MANIFEST.json written (jsonschema not available for validation)')
