#!/usr/bin/env python3
"""mk_round.py <suffix> [pid ...] - prepares one seeding round: for every property a scratch worktree /tmp/seed_<pid><suffix> and a
prompt /root/work/seed_<pid><suffix>.txt that lists the summaries of the seeds already studied for that property (the agent gets
nothing else from /verif)."""
import sys, json, glob, subprocess, os
suffix = sys.argv[1]
pids = sys.argv[2:] or ['C%02d' % i for i in range(1, 20)]
studied = {}
for m in sorted(glob.glob('/verif/seeded/*/meta.json')):
    j = json.load(open(m))
    studied.setdefault(j['property_broken'], []).append(j['summary'].split(' NOTE:')[0])
EXTRA_PENDING = {  # evaluated but meta not yet written
    'C01': ['CTL atom check memoised with functools.lru_cache keyed on (Kripke object, atom name): stale after the caller relabels the same structure'],
    'C07': ['CTLS.modelcheck keeps the parser in a module-level variable: a parser= passed once becomes the default of later text calls'],
    'C15': ['CTL E(U) fairness rewriting leaves the second operand un-rewritten (nested quantifiers under it are checked without fairness)'],
}
if os.path.exists('/verif/seeded/C01c-lru-cache-atoms/meta.json'):
    EXTRA_PENDING = {}
for name, pid, wt, checks, needs, summary in json.load(open('/verif/tools/round4.json')):
    if not os.path.exists('/verif/seeded/%s/meta.json' % name):
        EXTRA_PENDING.setdefault(pid, []).append(summary)
DIRECTIONS = ("Favour one of these directions, which are easy to overlook: (i) rarely used but public entry points and argument forms; "
              "(ii) unusual but legitimate Python values (states / graph nodes / labels that are strings, tuples, frozensets, ints mixed with strings, objects; "
              "empty collections; single-element inputs; very long or deeply nested inputs); (iii) aliasing between objects the caller passes in or gets back, "
              "or between two results; (iv) state that survives across calls (module- or class-level caches, mutable default arguments, objects reused by a second call); "
              "(v) two cooperating edits in different files that each look harmless; (vi) error paths: which exception is raised, when, and what has been modified before it is raised; "
              "(vii) behaviour that depends on set/dict iteration order or on the hash seed; (viii) a helper shared by several features, changed so that only ONE of its callers misbehaves; "
              "(ix) Python semantics traps: an iterable consumed twice, `is` vs `==`, True == 1 and hash(True) == hash(1), a string being an iterable of characters, "
              "dict views comparing as sets, __eq__ without matching __hash__, shallow vs deep copies, default arguments evaluated once; "
              "(x) boundaries the documentation allows: no initial states, a single state, an empty fairness list, a formula that is just an atom or a constant, "
              "an operator applied to one operand, repeated operands, very deep nesting.")
for pid in pids:
    ex = ''
    items = studied.get(pid, []) + EXTRA_PENDING.get(pid, [])
    if items:
        ex = ("Changes of the following kinds have ALREADY been studied for this property, so yours must be of a DIFFERENT kind, in a different function "
              "(preferably a different file):\n" + ''.join('    - %s\n' % s for s in items))
    ex += DIRECTIONS + '\n'
    tag = pid + suffix
    if os.path.exists('/tmp/seed_' + tag):
        print('exists', tag); continue
    subprocess.run([sys.executable, '/verif/tools/mk_seed_prompt.py', pid, tag, ex], check=True)
