#!/usr/bin/env python3
"""eval_round.py <round.json> [name ...] - official evaluation of a round of seeds: for every entry
[name, pid, worktree-tag, checks, needs, summary] runs tools/seed_eval.sh (patch applied to /repo, checks run, patch undone)
and writes meta.json with tools/seed_meta.py.  Sequential: nothing else may use /repo meanwhile."""
import sys, json, subprocess, os
entries = json.load(open(sys.argv[1]))
only = set(sys.argv[2:])
for name, pid, tag, checks, needs, summary in entries:
    if only and name not in only:
        continue
    wt = '/tmp/' + tag
    if not os.path.isdir(wt):
        print('MISSING worktree', wt, flush=True)
        continue
    r = subprocess.run(['/verif/tools/seed_eval.sh', name, pid, wt] + checks.split(), capture_output=True, text=True)
    out = [l for l in r.stdout.splitlines() if not l.startswith('WARNING conda')]
    print('\n'.join(out), flush=True)
    if subprocess.run(['git', '-C', '/repo', 'status', '--short', '--untracked-files=no'], capture_output=True, text=True).stdout.strip():
        print('/repo DIRTY after', name, '- stopping', flush=True)
        sys.exit(2)
    m = subprocess.run([sys.executable, '/verif/tools/seed_meta.py', name, pid, needs, summary], capture_output=True, text=True)
    print('  ->', m.stdout.strip() or m.stderr.strip()[-300:], flush=True)
