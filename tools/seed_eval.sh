#!/bin/bash
# seed_eval.sh <seed-name> <property> <worktree> [check ids...]
# 1. confirms in the scratch worktree: tests pass with the change, demo exits 1 with / 0 without;
# 2. stores patch.diff + demo under /verif/seeded/<seed-name>/;
# 3. applies the patch to /repo, runs the given checks (default: the property's), undoes it.
set -u
NAME="$1"; PID="$2"; WT="$3"; shift 3
CHECKS="${*:-$PID}"
OUT=/verif/seeded/$NAME
mkdir -p "$OUT"
cd "$WT" || exit 2
git diff -- pyModelChecking > "$OUT/patch.diff"
DEMO=$(ls demo_*.py 2>/dev/null | head -1)
[ -n "$DEMO" ] && cp "$DEMO" "$OUT/"
echo "== patch: $(wc -l < "$OUT/patch.diff") lines; demo: $DEMO"
T_WITH=$(PYTHONPATH=$WT /venv/bin/python -m pytest -q -p no:cacheprovider 2>&1 | tail -1)
PYTHONPATH=$WT PYTHONHASHSEED=0 timeout 600 /venv/bin/python "$DEMO" > "$OUT/demo_with.log" 2>&1; D_WITH=$?
git checkout -- pyModelChecking
PYTHONPATH=$WT PYTHONHASHSEED=0 timeout 600 /venv/bin/python "$DEMO" > "$OUT/demo_without.log" 2>&1; D_WITHOUT=$?
git apply "$OUT/patch.diff"
echo "tests with change: $T_WITH"
echo "demo exit with change: $D_WITH   without: $D_WITHOUT"
# run our checks against the patched /repo
if ! git -C /repo diff --quiet; then echo "/repo is dirty, abort"; exit 2; fi
git -C /repo apply "$OUT/patch.diff" || { echo "patch does not apply to /repo"; exit 2; }
RES=""
for c in $CHECKS; do
  (cd /verif && timeout 1200 ./check $c --tier quick) > "$OUT/check_$c.log" 2>&1; rc=$?
  V=$(grep -c '^VIOLATION' "$OUT/check_$c.log")
  NF=$(grep '^VIOLATION' "$OUT/check_$c.log" | grep -vc 'no-failing-input-found')
  echo "check $c: exit=$rc violations_lines=$V with_failing_input=$NF :: $(grep -v '^VIOLATION\|WARNING' "$OUT/check_$c.log" | tail -1)"
  RES="$RES $c:rc=$rc:failing_input_lines=$NF"
  # keep one replay as evidence
  R=$(grep '^VIOLATION' "$OUT/check_$c.log" | head -1 | sed 's/.*replay=\([^ ]*\).*/\1/')
  [ -n "$R" ] && [ -f "$R" ] && cp "$R" "$OUT/replay_$c.json"
done
git -C /repo checkout -- .
git -C /repo status --short | head -3
git -C /verif checkout -q -- evidence      # evidence written against the patched tree is not evidence
cat > "$OUT/run.txt" <<EOT
tests_with_change: $T_WITH
demo_exit_with_change: $D_WITH
demo_exit_without_change: $D_WITHOUT
checks:$RES
EOT
