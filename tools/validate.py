#!/usr/bin/env python3
"""validate MANIFEST.json and every evidence file against the schemas"""
import json, glob, sys, jsonschema
ok = True
m = json.load(open('/verif/MANIFEST.json'))
jsonschema.validate(m, json.load(open('/root/.vp/MANIFEST.schema.json')))
es = json.load(open('/root/.vp/EVIDENCE.schema.json'))
for c in m['checks']:
    p = c['evidence_file']
    try:
        e = json.load(open(p))
        jsonschema.validate(e, es)
        print('ok  ', p, e['level'], e['tier'], 'viol=%s' % e.get('violations'))
    except Exception as ex:
        ok = False
        print('BAD ', p, str(ex)[:200])
sys.exit(0 if ok else 1)
