#!/usr/bin/env python3
"""mk_seed_prompt.py <pid> <tag> - creates a scratch worktree /tmp/seed_<tag> and the prompt file /root/work/seed_<tag>.txt"""
import json, sys, subprocess
pid, tag = sys.argv[1], sys.argv[2]
extra = sys.argv[3] if len(sys.argv) > 3 else ''
props = {json.loads(l)['id']: json.loads(l) for l in open('/verif/properties.jsonl')}
wt = '/tmp/seed_' + tag
subprocess.run(['git', '-C', '/repo', 'worktree', 'add', '-q', '--detach', wt, 'HEAD'], check=True)
tmpl = open('/verif/tools/seed_prompt.tmpl').read()
p = props[pid]
open('/root/work/seed_%s.txt' % tag, 'w').write(tmpl.format(wt=wt, pid=pid, title=p['title'], statement=p['statement'], q=p['quantifier']['text'], extra=extra))
print(wt)
